import IslaVerif.Model.XPath
import IslaVerif.Proofs.Sem
import IslaVerif.Proofs.TreeOps
/-
Lemmas for C08x: the translation of the XPath CHILD step `n.<T>[i]` into match expressions
(Model/XPath.lean) means what the documentation says.
* `nthOcc_iff`, `nthOcc_spec`, `nthOcc_isSome_iff`: the position arithmetic;
* `matchKids_alt`, `matchM_altTree`: `match` against the tree of an alternative succeeds iff the
  node is expanded by exactly that alternative, and binds `x` to the chosen child;
* `match_child`, `match_child_complete`, `matchInst_child`, `xpath_child_all/ex`;
* `expanded_of_valid`, `expanded_in_valid`: the expansion hypothesis from tree validity;
* `all_mexprs_iff_conj`, `ex_mexprs_iff_disj`: list of trees = conjunction / disjunction.
-/
namespace IslaVerif.XPath
open IslaVerif IslaVerif.Sem

/-! ### `nthOcc` -/

theorem nthOcc_iff (T : String) : ∀ (e : List String) (i pos k : Nat),
    nthOcc T i e pos = some k ↔
      ∃ j, k = pos + j ∧ e[j]? = some T ∧ (e.take j).count T + 1 = i := by
  intro e
  induction e with
  | nil =>
    intro i pos k
    cases i <;> simp [nthOcc]
  | cons s rest ih =>
    intro i pos k
    cases i with
    | zero => simp [nthOcc]
    | succ i =>
      rw [nthOcc]
      by_cases hs : s = T
      · subst hs
        simp only [beq_self_eq_true, if_true]
        by_cases hi : i = 0
        · subst hi
          simp only [beq_self_eq_true, if_true, Option.some.injEq]
          constructor
          · rintro rfl
            exact ⟨0, rfl, by simp, by simp⟩
          · rintro ⟨j, rfl, hj, hc⟩
            cases j with
            | zero => rfl
            | succ j => simp [List.take_succ_cons] at hc
        · have : (i == 0) = false := by simp [hi]
          rw [this]
          simp only [Bool.false_eq_true, if_false]
          rw [ih]
          constructor
          · rintro ⟨j, rfl, hj, hc⟩
            refine ⟨j + 1, by omega, by simpa using hj, ?_⟩
            simp [List.take_succ_cons, hc]
          · rintro ⟨j, rfl, hj, hc⟩
            cases j with
            | zero => simp at hc; omega
            | succ j =>
              refine ⟨j, by omega, by simpa using hj, ?_⟩
              simp [List.take_succ_cons] at hc
              omega
      · have : (s == T) = false := by simp [hs]
        rw [this]
        simp only [Bool.false_eq_true, if_false]
        rw [ih]
        constructor
        · rintro ⟨j, rfl, hj, hc⟩
          refine ⟨j + 1, by omega, by simpa using hj, ?_⟩
          simp [List.take_succ_cons, hc, hs]
        · rintro ⟨j, rfl, hj, hc⟩
          cases j with
          | zero => simp at hj; exact absurd hj hs
          | succ j =>
            refine ⟨j, by omega, by simpa using hj, ?_⟩
            simpa [List.take_succ_cons, List.count_cons, hs] using hc


/-! ### matching against the tree of an alternative -/

theorem altLeaf_sym (g : Grammar) (s : String) : (altLeaf g s).sym = s := by
  unfold altLeaf; split <;> rfl

theorem altLeaf_kids (g : Grammar) (s : String) : (altLeaf g s).kids = [] := by
  unfold altLeaf; split <;> rfl

theorem sym_openLeaf (i : Nat) (s : String) : (DTree.openLeaf i s).sym = s := rfl
theorem sym_node (i : Nat) (s : String) (ks : List DTree) : (DTree.node i s ks).sym = s := rfl
theorem kids_openLeaf (i : Nat) (s : String) : (DTree.openLeaf i s).kids = [] := rfl
theorem kids_node (i : Nat) (s : String) (ks : List DTree) : (DTree.node i s ks).kids = ks := rfl

/-- a child matched against a leaf of the alternative, no variable bound below it -/
theorem matchM_altLeaf_nil (g : Grammar) (pos : Path) (c : DTree) (s : String) :
    matchM pos c (altLeaf g s) [] = if c.sym = s then some [] else none := by
  unfold altLeaf
  split
  · rw [matchM]
    · by_cases h : c.sym = s <;> simp [h, sym_openLeaf, kids_openLeaf]
    · intro v hv; cases hv
  · rw [matchM]
    · by_cases h : c.sym = s <;> simp [h, sym_node, kids_node]
    · intro v hv; cases hv

/-- a child matched against the leaf of the alternative that is bound to `x` -/
theorem matchM_altLeaf_bound (g : Grammar) (pos : Path) (c : DTree) (s x : String) :
    matchM pos c (altLeaf g s) [(x, [])] = if c.sym = s then some [(x, pos)] else none := by
  unfold altLeaf
  split
  · rw [matchM]
    by_cases h : c.sym = s <;> simp [h, sym_openLeaf, kids_openLeaf]
  · rw [matchM]
    by_cases h : c.sym = s <;> simp [h, sym_node, kids_node]

theorem bindsAt_single (x : String) (k j : Nat) :
    bindsAt [(x, [k])] j = if k = j then [(x, [])] else [] := by
  by_cases h : k = j <;> simp [bindsAt, h]

/-- the children of a node matched against the leaves of an alternative, with `x` bound to the
leaf at position `k`: succeeds iff the labels agree, and binds `x` to the child at position `k` -/
theorem matchKids_alt (g : Grammar) (pos : Path) (x : String) (k : Nat) :
    ∀ (ks : List DTree) (e : List String) (j : Nat), ks.length = e.length →
      matchKids pos j ks (e.map (altLeaf g)) [(x, [k])] =
        if ks.map DTree.sym = e then
          some (if j ≤ k ∧ k < j + ks.length then [(x, pos ++ [k])] else [])
        else none := by
  intro ks
  induction ks with
  | nil =>
    intro e j hl
    cases e with
    | nil => simp [matchKids]
    | cons _ _ => simp at hl
  | cons c ks ih =>
    intro e j hl
    cases e with
    | nil => simp at hl
    | cons s e =>
      simp only [List.length_cons, Nat.add_right_cancel_iff] at hl
      simp only [List.map_cons, matchKids, ih e (j + 1) hl, bindsAt_single]
      by_cases hkj : k = j
      · subst hkj
        simp only [if_true, matchM_altLeaf_bound]
        by_cases hs : c.sym = s
        · by_cases he : ks.map DTree.sym = e
          · have h1 : ¬ (k + 1 ≤ k ∧ k < k + 1 + ks.length) := by omega
            have h2 : (k ≤ k ∧ k < k + (ks.length + 1)) := by omega
            simp [hs, he, h1, h2]
          · simp [hs, he]
        · simp [hs]
      · simp only [if_neg hkj, matchM_altLeaf_nil]
        by_cases hs : c.sym = s
        · by_cases he : ks.map DTree.sym = e
          · have h1 : (j + 1 ≤ k ∧ k < j + 1 + ks.length) ↔ (j ≤ k ∧ k < j + (ks.length + 1)) := by omega
            simp [hs, he, h1]
          · simp [hs, he]
        · simp [hs]

theorem nthOcc_lt {T : String} {i : Nat} {e : List String} {k : Nat}
    (h : nthOcc T i e 0 = some k) : k < e.length := by
  obtain ⟨j, rfl, hj, _⟩ := (nthOcc_iff T e i 0 k).1 h
  have := (List.getElem?_eq_some_iff.1 hj).1
  omega

/-- a node matched against the tree of an alternative `e` with `x` bound to position `k`:
succeeds iff the node is labelled `V` and its children are labelled as `e` says -/
theorem matchM_altTree (g : Grammar) (pos : Path) (x V : String) (k : Nat) (t : DTree)
    (e : List String) (hk : k < e.length) :
    matchM pos t (altTree g V e) [(x, [k])] =
      if t.sym = V ∧ t.kids.map DTree.sym = e then some [(x, pos ++ [k])] else none := by
  unfold altTree
  cases e with
  | nil => simp at hk
  | cons s e =>
    rw [List.map_cons, matchM]
    · simp only [sym_node, kids_node, List.length_cons, List.length_map]
      by_cases hs : t.sym = V
      · by_cases hl : t.kids.length = e.length + 1
        · have := matchKids_alt g pos x k t.kids (s :: e) 0 (by simpa using hl)
          rw [List.map_cons] at this
          rw [this]
          have h2 : k < e.length + 1 := by simpa using hk
          simp [hs, hl, h2]
        · have : ¬ t.kids.map DTree.sym = s :: e := by
            intro h; apply hl; rw [← List.length_map (f := DTree.sym), h]; rfl
          simp [hs, hl, this]
      · simp [hs]
    · intro v hv; simp at hv

theorem mem_childMTrees (g : Grammar) (V T : String) (i : Nat) (x : String) (m : MTree) :
    m ∈ childMTrees g V T i x ↔ ∃ e k, e ∈ (g.alts V).getD [] ∧ nthOcc T i e 0 = some k ∧
      m = { tree := altTree g V e, binds := [(x, [k])] } := by
  simp only [childMTrees, List.mem_filterMap, Option.map_eq_some_iff]
  constructor
  · rintro ⟨e, he, k, hk, rfl⟩; exact ⟨e, k, he, hk, rfl⟩
  · rintro ⟨e, k, he, hk, rfl⟩; exact ⟨e, he, k, hk, rfl⟩

/-! ### (a), (b): what the trees of the translation match -/

/-- a successful match of a tree of the translation: the node is labelled `V`, it is expanded by
the alternative `e` of the tree, and the only binding is `x ↦` the path of its `i`-th `T`-child -/
theorem match_child_full (g : Grammar) (V T : String) (i : Nat) (x : String) (pos : Path) (t : DTree)
    (m : MTree) (bs : List (String × Path)) (hm : m ∈ childMTrees g V T i x)
    (h : matchM pos t m.tree m.binds = some bs) :
    ∃ e k, e ∈ (g.alts V).getD [] ∧ m = { tree := altTree g V e, binds := [(x, [k])] } ∧
      t.sym = V ∧ t.kids.map DTree.sym = e ∧ bs = [(x, pos ++ [k])] ∧ nthChild T i t = some k := by
  obtain ⟨e, k, he, hk, rfl⟩ := (mem_childMTrees g V T i x m).1 hm
  simp only at h
  rw [matchM_altTree g pos x V k t e (nthOcc_lt hk)] at h
  split at h
  · rename_i hc
    simp only [Option.some.injEq] at h
    refine ⟨e, k, he, rfl, hc.1, hc.2, h.symm, ?_⟩
    unfold nthChild
    rw [hc.2]; exact hk
  · cases h

theorem match_child (g : Grammar) (V T : String) (i : Nat) (x : String) (pos : Path) (t : DTree)
    (m : MTree) (bs : List (String × Path)) (hm : m ∈ childMTrees g V T i x)
    (h : matchM pos t m.tree m.binds = some bs) :
    ∃ k, bs = [(x, pos ++ [k])] ∧ nthChild T i t = some k := by
  obtain ⟨_, k, _, _, _, _, h1, h2⟩ := match_child_full g V T i x pos t m bs hm h
  exact ⟨k, h1, h2⟩

theorem match_child_complete (g : Grammar) (V T : String) (i : Nat) (x : String) (pos : Path)
    (t : DTree) (k : Nat) (hs : t.sym = V) (he : t.kids.map DTree.sym ∈ (g.alts V).getD [])
    (hk : nthChild T i t = some k) :
    ∃ m, m ∈ childMTrees g V T i x ∧ matchM pos t m.tree m.binds = some [(x, pos ++ [k])] := by
  refine ⟨{ tree := altTree g V (t.kids.map DTree.sym), binds := [(x, [k])] },
    (mem_childMTrees g V T i x _).2 ⟨_, k, he, hk, rfl⟩, ?_⟩
  simp only
  rw [matchM_altTree g pos x V k t _ (nthOcc_lt hk)]
  simp [hs]

/-- at most one tree of the translation matches a given node, up to duplicates of alternatives:
all matches give the same binding -/
theorem match_child_unique (g : Grammar) (V T : String) (i : Nat) (x : String) (pos : Path) (t : DTree)
    (m m' : MTree) (bs bs' : List (String × Path)) (hm : m ∈ childMTrees g V T i x)
    (hm' : m' ∈ childMTrees g V T i x) (h : matchM pos t m.tree m.binds = some bs)
    (h' : matchM pos t m'.tree m'.binds = some bs') : bs = bs' := by
  obtain ⟨k, rfl, hk⟩ := match_child g V T i x pos t m bs hm h
  obtain ⟨k', rfl, hk'⟩ := match_child g V T i x pos t m' bs' hm' h'
  rw [hk] at hk'; cases hk'; rfl

/-! ### the expansion hypothesis from validity -/

theorem expanded_of_valid (g : Grammar) (t : DTree) (hv : t.valid g = true) (hne : t.kids ≠ [])
    (h0 : t.kids.map DTree.sym ≠ [""]) : t.kids.map DTree.sym ∈ (g.alts t.sym).getD [] := by
  cases t with
  | openLeaf i s => simp [DTree.kids] at hne
  | node i s ks =>
    simp only [kids_node, sym_node] at *
    cases hs : g.alts s with
    | none =>
      rw [DTree.valid_node_of_not_alts hs] at hv
      cases ks with
      | nil => simp at hne
      | cons _ _ => simp at hv
    | some as =>
      rw [DTree.valid_node_of_alts hs, Bool.and_eq_true, List.any_eq_true] at hv
      obtain ⟨⟨alt, ha, hm⟩, _⟩ := hv
      simp only [Grammar.kidsMatch, Bool.or_eq_true, Bool.and_eq_true, beq_iff_eq] at hm
      rcases hm with hm | ⟨_, hm⟩
      · simpa [hm] using ha
      · exact absurd hm h0

theorem nthOcc_mem {T : String} {i : Nat} {e : List String} {k : Nat}
    (h : nthOcc T i e 0 = some k) : T ∈ e := by
  obtain ⟨j, _, hj, _⟩ := (nthOcc_iff T e i 0 k).1 h
  exact List.mem_of_getElem? hj

/-- for `T ≠ ""`: a valid node with an `i`-th `T`-child is expanded by one of its alternatives -/
theorem expanded_of_valid_nthChild (g : Grammar) (T : String) (i k : Nat) (t : DTree)
    (hT : T ≠ "") (hv : t.valid g = true) (hk : nthChild T i t = some k) :
    t.kids.map DTree.sym ∈ (g.alts t.sym).getD [] := by
  have hmem : T ∈ t.kids.map DTree.sym := nthOcc_mem hk
  apply expanded_of_valid g t hv
  · intro h; rw [h] at hmem; simp at hmem
  · intro h; rw [h] at hmem; simp at hmem; exact hT hmem

/-! ### (c): the meaning of the translated quantifiers -/

/-- the instances of the translated quantifier: exactly the nodes labelled `V` in the in-tree that
have an `i`-th `T`-child, with `n` bound to the node and `x` to that child -/
theorem matchInst_child (w : World) (β : Env) (n V c T : String) (i : Nat) (x : String)
    (hv : ∀ p sub q t k, β.get c = some (.path p) → w.root.get p = some sub → sub.get q = some t →
      t.sym = V → nthChild T i t = some k → t.kids.map DTree.sym ∈ (w.g.alts V).getD [])
    (β' : Env) :
    MatchInst w β n V c (childMTrees w.g V T i x) β' ↔
      ∃ p sub q t k, β.get c = some (.path p) ∧ w.root.get p = some sub ∧ sub.get q = some t ∧
        t.sym = V ∧ nthChild T i t = some k ∧
        β' = (n, Bind.path (p ++ q)) :: (x, Bind.path (p ++ q ++ [k])) :: β := by
  constructor
  · rintro ⟨p, sub, q, t, m, bs, h1, h2, h3, h4, hm, hbs, rfl⟩
    obtain ⟨k, rfl, hk⟩ := match_child w.g V T i x (p ++ q) t m bs hm hbs
    exact ⟨p, sub, q, t, k, h1, h2, h3, h4, hk, rfl⟩
  · rintro ⟨p, sub, q, t, k, h1, h2, h3, h4, hk, rfl⟩
    obtain ⟨m, hm, hbs⟩ := match_child_complete w.g V T i x (p ++ q) t k h4
      (hv p sub q t k h1 h2 h3 h4 hk) hk
    exact ⟨p, sub, q, t, m, _, h1, h2, h3, h4, hm, hbs, rfl⟩

theorem xpath_child_all (w : World) (β : Env) (n V c T : String) (i : Nat) (x : String) (φ : Fm)
    (hv : ∀ p sub q t k, β.get c = some (.path p) → w.root.get p = some sub → sub.get q = some t →
      t.sym = V → nthChild T i t = some k → t.kids.map DTree.sym ∈ (w.g.alts V).getD []) :
    Sat w β (.all n V c (some (childMTrees w.g V T i x)) φ) ↔
      ∀ p sub q t k, β.get c = some (.path p) → w.root.get p = some sub → sub.get q = some t →
        t.sym = V → nthChild T i t = some k →
        Sat w ((n, .path (p ++ q)) :: (x, .path (p ++ q ++ [k])) :: β) φ := by
  simp only [Sat, matchInst_child w β n V c T i x hv]
  constructor
  · intro h p sub q t k h1 h2 h3 h4 hk
    exact h _ ⟨p, sub, q, t, k, h1, h2, h3, h4, hk, rfl⟩
  · rintro h β' ⟨p, sub, q, t, k, h1, h2, h3, h4, hk, rfl⟩
    exact h p sub q t k h1 h2 h3 h4 hk

theorem xpath_child_ex (w : World) (β : Env) (n V c T : String) (i : Nat) (x : String) (φ : Fm)
    (hv : ∀ p sub q t k, β.get c = some (.path p) → w.root.get p = some sub → sub.get q = some t →
      t.sym = V → nthChild T i t = some k → t.kids.map DTree.sym ∈ (w.g.alts V).getD []) :
    Sat w β (.ex n V c (some (childMTrees w.g V T i x)) φ) ↔
      ∃ p sub q t k, β.get c = some (.path p) ∧ w.root.get p = some sub ∧ sub.get q = some t ∧
        t.sym = V ∧ nthChild T i t = some k ∧
        Sat w ((n, .path (p ++ q)) :: (x, .path (p ++ q ++ [k])) :: β) φ := by
  simp only [Sat, matchInst_child w β n V c T i x hv]
  constructor
  · rintro ⟨β', ⟨p, sub, q, t, k, h1, h2, h3, h4, hk, rfl⟩, hs⟩
    exact ⟨p, sub, q, t, k, h1, h2, h3, h4, hk, hs⟩
  · rintro ⟨p, sub, q, t, k, h1, h2, h3, h4, hk, hs⟩
    exact ⟨_, ⟨p, sub, q, t, k, h1, h2, h3, h4, hk, rfl⟩, hs⟩

/-- `←` of `xpath_child_all` without any hypothesis -/
theorem xpath_child_all_of (w : World) (β : Env) (n V c T : String) (i : Nat) (x : String) (φ : Fm)
    (h : ∀ p sub q t k, β.get c = some (.path p) → w.root.get p = some sub → sub.get q = some t →
        t.sym = V → nthChild T i t = some k →
        Sat w ((n, .path (p ++ q)) :: (x, .path (p ++ q ++ [k])) :: β) φ) :
    Sat w β (.all n V c (some (childMTrees w.g V T i x)) φ) := by
  simp only [Sat]
  rintro β' ⟨p, sub, q, t, m, bs, h1, h2, h3, h4, hm, hbs, rfl⟩
  obtain ⟨k, rfl, hk⟩ := match_child w.g V T i x (p ++ q) t m bs hm hbs
  exact h p sub q t k h1 h2 h3 h4 hk

/-- `→` of `xpath_child_ex` without any hypothesis -/
theorem xpath_child_ex_elim (w : World) (β : Env) (n V c T : String) (i : Nat) (x : String) (φ : Fm)
    (h : Sat w β (.ex n V c (some (childMTrees w.g V T i x)) φ)) :
    ∃ p sub q t k, β.get c = some (.path p) ∧ w.root.get p = some sub ∧ sub.get q = some t ∧
      t.sym = V ∧ nthChild T i t = some k ∧
      Sat w ((n, .path (p ++ q)) :: (x, .path (p ++ q ++ [k])) :: β) φ := by
  simp only [Sat] at h
  obtain ⟨β', ⟨p, sub, q, t, m, bs, h1, h2, h3, h4, hm, hbs, rfl⟩, hs⟩ := h
  obtain ⟨k, rfl, hk⟩ := match_child w.g V T i x (p ++ q) t m bs hm hbs
  exact ⟨p, sub, q, t, k, h1, h2, h3, h4, hk, hs⟩

/-- the expansion hypothesis holds in valid reference trees when `T` is not the empty symbol -/
theorem expanded_in_valid (w : World) (β : Env) (V c T : String) (i : Nat) (hT : T ≠ "")
    (hroot : w.root.valid w.g = true) :
    ∀ p sub q t k, β.get c = some (.path p) → w.root.get p = some sub → sub.get q = some t →
      t.sym = V → nthChild T i t = some k → t.kids.map DTree.sym ∈ (w.g.alts V).getD [] := by
  intro p sub q t k _ h2 h3 h4 hk
  have hvt : t.valid w.g = true :=
    DTree.valid_get w.g q sub t (DTree.valid_get w.g p w.root sub hroot h2) h3
  rw [← h4]
  exact expanded_of_valid_nthChild w.g T i k t hT hvt hk

/-! ### (d): sanity facts -/

/-- the position `nthOcc` returns carries `T` and has exactly `i - 1` occurrences of `T` before it;
and it is the only such position -/
theorem nthOcc_spec (T : String) (i : Nat) (e : List String) (k : Nat) :
    nthOcc T i e 0 = some k ↔ e[k]? = some T ∧ (e.take k).count T + 1 = i := by
  rw [nthOcc_iff]
  constructor
  · rintro ⟨j, rfl, h1, h2⟩; rw [Nat.zero_add]; exact ⟨h1, h2⟩
  · rintro ⟨h1, h2⟩; exact ⟨k, by omega, h1, h2⟩

theorem nthOcc_isSome_iff (T : String) : ∀ (e : List String) (i pos : Nat),
    (nthOcc T i e pos).isSome = true ↔ 1 ≤ i ∧ i ≤ e.count T := by
  intro e
  induction e with
  | nil => intro i pos; cases i <;> simp [nthOcc]
  | cons s rest ih =>
    intro i pos
    cases i with
    | zero => simp [nthOcc]
    | succ i =>
      rw [nthOcc]
      by_cases hs : s = T
      · subst hs
        by_cases hi : i = 0
        · subst hi; simp
        · simp only [beq_self_eq_true, if_true, beq_iff_eq, hi, if_false, ih, List.count_cons_self]
          omega
      · have : (s == T) = false := by simp [hs]
        simp only [this, Bool.false_eq_true, if_false, ih, List.count_cons_of_ne hs]

theorem nthOcc_eq_none_iff (T : String) (e : List String) (i pos : Nat) :
    nthOcc T i e pos = none ↔ i = 0 ∨ e.count T < i := by
  have := nthOcc_isSome_iff T e i pos
  cases h : nthOcc T i e pos with
  | none => simp [h] at this; simp; omega
  | some k => simp [h] at this; simp; omega

/-- no tree when no alternative of `V` has `i` occurrences of `T` (in particular when `V` is not a
nonterminal, and for `i = 0`) -/
theorem childMTrees_eq_nil_iff (g : Grammar) (V T : String) (i : Nat) (x : String) :
    childMTrees g V T i x = [] ↔ ∀ e ∈ (g.alts V).getD [], i = 0 ∨ e.count T < i := by
  simp only [childMTrees, List.filterMap_eq_nil_iff, Option.map_eq_none_iff, nthOcc_eq_none_iff]

/-- one tree per alternative with at least `i` occurrences of `T` -/
theorem childMTrees_length (g : Grammar) (V T : String) (i : Nat) (x : String) :
    (childMTrees g V T i x).length =
      (((g.alts V).getD []).filter fun e => decide (1 ≤ i ∧ i ≤ e.count T)).length := by
  unfold childMTrees
  generalize (g.alts V).getD [] = as
  induction as with
  | nil => rfl
  | cons e as ih =>
    have h := nthOcc_isSome_iff T e i 0
    rw [List.filterMap_cons, List.filter_cons]
    cases hk : nthOcc T i e 0 with
    | none =>
      rw [hk] at h
      have : ¬ (1 ≤ i ∧ i ≤ e.count T) := by simpa using h
      rw [if_neg (by simpa using this)]
      exact ih
    | some k =>
      rw [hk] at h
      have : (1 ≤ i ∧ i ≤ e.count T) := by simpa using h
      rw [if_pos (by simpa using this)]
      simp only [Option.map_some, List.length_cons, ih]

/-! ### a list of match-expression trees = conjunction / disjunction of single-tree quantifiers -/

theorem matchInst_list (w : World) (β : Env) (v ty c : String) (ms : List MTree) (β' : Env) :
    MatchInst w β v ty c ms β' ↔ ∃ m ∈ ms, MatchInst w β v ty c [m] β' := by
  constructor
  · rintro ⟨p, sub, q, t, m, bs, h1, h2, h3, h4, hm, hbs, rfl⟩
    exact ⟨m, hm, p, sub, q, t, m, bs, h1, h2, h3, h4, by simp, hbs, rfl⟩
  · rintro ⟨m, hm, p, sub, q, t, m', bs, h1, h2, h3, h4, hm', hbs, rfl⟩
    simp only [List.mem_singleton] at hm'
    subst hm'
    exact ⟨p, sub, q, t, m', bs, h1, h2, h3, h4, hm, hbs, rfl⟩

theorem satAll_map {α : Type} (w : World) (β : Env) (F : α → Fm) (l : List α) :
    SatAll w β (l.map F) ↔ ∀ a ∈ l, Sat w β (F a) := by
  induction l with
  | nil => simp [SatAll]
  | cons a l ih => simp [SatAll, ih]

theorem satAny_map {α : Type} (w : World) (β : Env) (F : α → Fm) (l : List α) :
    SatAny w β (l.map F) ↔ ∃ a ∈ l, Sat w β (F a) := by
  induction l with
  | nil => simp [SatAny]
  | cons a l ih => simp [SatAny, ih]

/-- the documented form (one quantifier per match-expression tree, combined by conjunction) and
the model's form (one quantifier with the list of trees) mean the same -/
theorem all_mexprs_iff_conj (w : World) (β : Env) (v ty c : String) (ms : List MTree) (f : Fm) :
    Sat w β (.conj (ms.map fun m => .all v ty c (some [m]) f)) ↔ Sat w β (.all v ty c (some ms) f) := by
  simp only [Sat, satAll_map, matchInst_list w β v ty c ms]
  constructor
  · rintro h β' ⟨m, hm, hi⟩; exact h m hm β' hi
  · intro h m hm β' hi; exact h β' ⟨m, hm, hi⟩

theorem ex_mexprs_iff_disj (w : World) (β : Env) (v ty c : String) (ms : List MTree) (f : Fm) :
    Sat w β (.disj (ms.map fun m => .ex v ty c (some [m]) f)) ↔ Sat w β (.ex v ty c (some ms) f) := by
  simp only [Sat, satAny_map, matchInst_list w β v ty c ms]
  constructor
  · rintro ⟨m, hm, β', hi, hs⟩; exact ⟨β', ⟨m, hm, hi⟩, hs⟩
  · rintro ⟨β', ⟨m, hm, hi⟩, hs⟩; exact ⟨m, hm, β', hi, hs⟩

end IslaVerif.XPath
