import IslaVerif.Model.PTree
import IslaVerif.Proofs.C04
/-
C16, part b: strings, openness, path lookup / node search / trie view, trie keys,
replacement locality, structural hash.  (Reuses `IslaVerif.C04.mem_paths_iff` and `get_append`.)
-/
namespace IslaVerif.C16
open IslaVerif IslaVerif.DTree

/-! ### Specification helpers -/
/-- what a leaf contributes to `str(tree)`: open leaves print their symbol; closed leaves print
their value unless it is a nonterminal (epsilon expansion) -/
def leafStr (isNT : String → Bool) : DTree → String
  | .openLeaf _ s => s
  | .node _ s _ => if isNT s then "" else s

def joinStrs : List String → String
  | [] => ""
  | s :: ss => s ++ joinStrs ss

def uniqueIds (t : DTree) : Prop := (t.paths.map (fun pu => pu.2.id)).Nodup

def keyBound : Nat := PTree.singleLimit + PTree.base ^ PTree.numDigits

/-! ### Lemmas -/

/-! #### strings -/

theorem joinStrs_append (a b : List String) : joinStrs (a ++ b) = joinStrs a ++ joinStrs b := by
  induction a with
  | nil => simp [joinStrs]
  | cons s a ih => simp [joinStrs, ih, String.append_assoc]

mutual
theorem yield_aux (isNT : String → Bool) : ∀ t : DTree,
    t.yieldOpen isNT = joinStrs ((t.paths.filter (fun pu => pu.2.isLeaf)).map (fun pu => leafStr isNT pu.2))
  | .openLeaf i s => by simp [yieldOpen, paths, isLeaf, kids, leafStr, joinStrs]
  | .node i s [] => by simp [yieldOpen, paths, pathsL, isLeaf, kids, leafStr, joinStrs]
  | .node i s (k :: ks) => by
    rw [yieldOpen, paths, List.filter_cons]
    simp only [isLeaf, kids, List.isEmpty_cons, Bool.false_eq_true, if_false]
    exact yield_auxL isNT (k :: ks) 0
theorem yield_auxL (isNT : String → Bool) : ∀ (ks : List DTree) (i : Nat),
    yieldOpenL isNT ks = joinStrs (((pathsL ks i).filter (fun pu => pu.2.isLeaf)).map (fun pu => leafStr isNT pu.2))
  | [], i => by simp [yieldOpenL, pathsL, joinStrs]
  | k :: ks, i => by
    rw [yieldOpenL, pathsL, List.filter_append, List.map_append, joinStrs_append,
      ← yield_auxL isNT ks (i+1), yield_aux isNT k]
    congr 1
    simp [List.filter_map, List.map_map, Function.comp_def]
end

/-- the string of a tree is the concatenation of its leaves -/
theorem yield_eq_leaves' (isNT : String → Bool) (t : DTree) :
    t.yieldOpen isNT = joinStrs (t.leaves.map (fun pu => leafStr isNT pu.2)) := yield_aux isNT t

/-! #### openness -/

mutual
theorem hasOpen_aux : ∀ t : DTree, t.hasOpen = true ↔ ∃ pu ∈ t.paths, pu.2.isOpenLeaf = true
  | .openLeaf i s => by simp [hasOpen, paths, isOpenLeaf]
  | .node i s ks => by
    rw [hasOpen, paths, hasOpen_auxL ks 0]
    simp [isOpenLeaf]
theorem hasOpen_auxL : ∀ (ks : List DTree) (i : Nat),
    hasOpenL ks = true ↔ ∃ pu ∈ pathsL ks i, pu.2.isOpenLeaf = true
  | [], i => by simp [hasOpenL, pathsL]
  | k :: ks, i => by
    rw [hasOpenL, pathsL, Bool.or_eq_true, hasOpen_aux k, hasOpen_auxL ks (i+1)]
    simp only [List.mem_append, or_and_right, exists_or, List.mem_map]
    apply or_congr _ Iff.rfl
    constructor
    · rintro ⟨pu, h1, h2⟩
      exact ⟨(i :: pu.1, pu.2), ⟨pu, h1, rfl⟩, h2⟩
    · rintro ⟨_, ⟨pu, h1, rfl⟩, h2⟩
      exact ⟨pu, h1, h2⟩
end

/-- a tree is open exactly when some leaf is unexpanded -/
theorem hasOpen_iff' (t : DTree) : t.hasOpen = true ↔ ∃ pu ∈ t.paths, pu.2.isOpenLeaf = true := hasOpen_aux t

/-! #### node search -/

theorem nodup_map_inj {α β : Type} (f : α → β) : ∀ (l : List α), (l.map f).Nodup → ∀ a b, a ∈ l → b ∈ l → f a = f b → a = b := by
  intro l
  induction l with
  | nil => simp
  | cons x l ih =>
    intro hn a b ha hb hf
    simp only [List.map_cons, List.nodup_cons, List.mem_map, not_exists, not_and] at hn
    rcases List.mem_cons.1 ha with ha' | ha' <;> rcases List.mem_cons.1 hb with hb' | hb'
    · rw [ha', hb']
    · subst ha'; exact absurd hf.symm (hn.1 b hb')
    · subst hb'; exact absurd hf (hn.1 a ha')
    · exact ih hn.2 a b ha' hb' hf

/-- node search agrees with path lookup -/
theorem findNode_spec' (t : DTree) (hu : uniqueIds t) (i : Nat) (p : Path) :
    t.findNode i = some p ↔ ∃ u, t.get p = some u ∧ u.id = i := by
  unfold findNode
  simp only [Option.map_eq_some_iff]
  constructor
  · rintro ⟨⟨p', u⟩, hf, rfl⟩
    have h1 := List.find?_some hf
    have h2 := List.mem_of_find?_eq_some hf
    exact ⟨u, (C04.mem_paths_iff t p' u).1 h2, by simpa using h1⟩
  · rintro ⟨u, hg, rfl⟩
    have hm := (C04.mem_paths_iff t p u).2 hg
    cases hf : t.paths.find? (fun pu => pu.2.id == u.id) with
    | none =>
      rw [List.find?_eq_none] at hf
      exact absurd (by simp) (hf _ hm)
    | some x =>
      have h1 := List.find?_some hf
      have h2 := List.mem_of_find?_eq_some hf
      have := nodup_map_inj (fun pu : Path × DTree => pu.2.id) t.paths hu x (p, u) h2 hm (by simpa using h1)
      subst this
      exact ⟨_, rfl, rfl⟩

/-! #### trie view -/

theorem filter_pathsL_prefix (r' : Path) : ∀ (ks : List DTree) (i j : Nat),
    (pathsL ks i).filter (fun pu => pu.1.take (r'.length + 1) == (i + j) :: r') =
      match ks[j]? with
      | none => []
      | some k => (k.paths.filter (fun pu => pu.1.take r'.length == r')).map
          (fun pu => ((i + j) :: pu.1, pu.2))
  | [], i, j => by simp [pathsL]
  | k :: ks, i, 0 => by
    rw [pathsL, List.filter_append]
    have h2 : (pathsL ks (i + 1)).filter (fun pu => pu.1.take (r'.length + 1) == (i + 0) :: r') = [] := by
      rw [List.filter_eq_nil_iff]
      rintro ⟨p, x⟩ hm
      obtain ⟨j, rest, rfl, _⟩ := (C04.mem_pathsL_iff ks (i+1) p x).1 hm
      simp
      omega
    rw [h2, List.append_nil, List.filter_map]
    simp [Function.comp_def]
  | k :: ks, i, j + 1 => by
    rw [pathsL, List.filter_append]
    have h1 : ((paths k).map (fun pu => (i :: pu.1, pu.2))).filter
        (fun pu => pu.1.take (r'.length + 1) == (i + (j + 1)) :: r') = [] := by
      rw [List.filter_eq_nil_iff]
      intro pu hm
      obtain ⟨pu', _, rfl⟩ := List.mem_map.1 hm
      simp
    rw [h1, List.nil_append]
    have := filter_pathsL_prefix r' ks (i + 1) j
    have e : i + 1 + j = i + (j + 1) := by omega
    rw [e] at this
    simpa using this

theorem filter_paths_prefix (t sub : DTree) (r : Path) (h : t.get r = some sub) :
    t.paths.filter (fun pu => pu.1.take r.length == r) = sub.paths.map (fun pu => (r ++ pu.1, pu.2)) := by
  induction r generalizing t with
  | nil =>
    simp [DTree.get] at h
    simp [h]
  | cons j r ih =>
    cases t with
    | openLeaf i s => simp [DTree.get, DTree.kids] at h
    | node i s ks =>
      simp only [DTree.get, DTree.kids] at h
      cases hk : ks[j]? with
      | none => simp [hk] at h
      | some k =>
        simp only [hk] at h
        rw [paths, List.filter_cons]
        have := filter_pathsL_prefix r ks 0 j
        simp only [Nat.zero_add, hk] at this
        simp only [List.length_cons, List.take_nil, this, ih k h]
        simp [Function.comp_def]

/-- the path-indexed subtree view rooted at `r` lists exactly the subtree's own paths, in order,
for any number of children per node -/
theorem trieItems_eq' (t sub : DTree) (r : Path) (h : t.get r = some sub) :
    t.trieItems r = sub.paths := by
  unfold trieItems
  rw [filter_paths_prefix t sub r h]
  simp [Function.comp_def]

/-! #### path replacement: locality -/

theorem replace_cons_inv {t t' u : DTree} {j : Nat} {p : Path} (h : t.replace (j :: p) u = some t') :
    ∃ i s ks k k', t = .node i s ks ∧ ks[j]? = some k ∧ k.replace p u = some k' ∧
      t' = .node i s (ks.set j k') := by
  cases t with
  | openLeaf i s => simp [replace] at h
  | node i s ks =>
    simp only [replace] at h
    cases hk : ks[j]? with
    | none => simp [hk] at h
    | some k =>
      cases hr : k.replace p u with
      | none => simp [hk, hr] at h
      | some k' =>
        simp [hk, hr] at h
        exact ⟨i, s, ks, k, k', rfl, hk, hr, h.symm⟩

/-- path replacement puts the new subtree at the path … -/
theorem replace_get_self' (t t' u : DTree) (p : Path) (h : t.replace p u = some t') : t'.get p = some u := by
  induction p generalizing t t' with
  | nil => simp [replace] at h; simp [DTree.get, h]
  | cons j p ih =>
    obtain ⟨i, s, ks, k, k', rfl, hk, hr, rfl⟩ := replace_cons_inv h
    have hj : j < ks.length := by
      rcases List.getElem?_eq_some_iff.1 hk with ⟨hj, _⟩; exact hj
    simp [DTree.get, DTree.kids, hj, ih k k' hr]

/-- … and changes nothing at any path that is neither above nor below it -/
theorem replace_get_disjoint' (t t' u : DTree) (p q : Path) (h : t.replace p u = some t')
    (h1 : ¬ p <+: q) (h2 : ¬ q <+: p) : t'.get q = t.get q := by
  induction p generalizing t t' q with
  | nil => simp at h1
  | cons j p ih =>
    obtain ⟨i, s, ks, k, k', rfl, hk, hr, rfl⟩ := replace_cons_inv h
    cases q with
    | nil => simp at h2
    | cons j' q =>
      have hj : j < ks.length := by
        rcases List.getElem?_eq_some_iff.1 hk with ⟨hj, _⟩; exact hj
      simp only [DTree.get, DTree.kids]
      by_cases hjj : j = j'
      · subst hjj
        simp only [List.cons_prefix_cons, true_and] at h1 h2
        have hkj : ks[j] = k := by simpa [hj] using hk
        simp [hj, hkj, ih k k' q hr h1 h2]
      · simp [List.getElem?_set_ne hjj]

/-- the nodes above keep their identity and label -/
theorem replace_get_above' (t t' u : DTree) (p q : Path) (h : t.replace p u = some t')
    (h1 : q <+: p) (h2 : q ≠ p) :
    ∃ a b, t.get q = some a ∧ t'.get q = some b ∧ a.id = b.id ∧ a.sym = b.sym ∧ a.kids.length = b.kids.length := by
  induction p generalizing t t' q with
  | nil => simp at h1; exact absurd h1 h2
  | cons j p ih =>
    obtain ⟨i, s, ks, k, k', rfl, hk, hr, rfl⟩ := replace_cons_inv h
    cases q with
    | nil => exact ⟨_, _, rfl, rfl, by simp [DTree.id, sym, kids]⟩
    | cons j' q =>
      have hj : j < ks.length := by
        rcases List.getElem?_eq_some_iff.1 hk with ⟨hj, _⟩; exact hj
      simp only [List.cons_prefix_cons] at h1
      obtain ⟨rfl, h1⟩ := h1
      have h2' : q ≠ p := fun e => h2 (by rw [e])
      obtain ⟨a, b, ha, hb, h3⟩ := ih k k' q hr h1 h2'
      exact ⟨a, b, by simp [DTree.get, DTree.kids, hk, ha], by simp [DTree.get, DTree.kids, hj, hb], h3⟩

/-! #### structural hash -/

mutual
theorem structEq_hash_aux (hLeaf : String → Nat) (hNode : String → List Nat → Nat) : ∀ (a b : DTree),
    structEq a b = true → structHash hLeaf hNode a = structHash hLeaf hNode b
  | .openLeaf _ s, .openLeaf _ s', h => by simp [structEq] at h; simp [structHash, h]
  | .node _ s ks, .node _ s' ks', h => by
    simp [structEq] at h
    simp [structHash, h.1, structEq_hash_auxL hLeaf hNode ks ks' h.2]
  | .openLeaf _ _, .node _ _ _, h => by simp [structEq] at h
  | .node _ _ _, .openLeaf _ _, h => by simp [structEq] at h
theorem structEq_hash_auxL (hLeaf : String → Nat) (hNode : String → List Nat → Nat) : ∀ (a b : List DTree),
    structEqL a b = true → structHashL hLeaf hNode a = structHashL hLeaf hNode b
  | [], [], _ => rfl
  | k :: ks, k' :: ks', h => by
    simp [structEqL] at h
    simp [structHashL, structEq_hash_aux hLeaf hNode k k' h.1, structEq_hash_auxL hLeaf hNode ks ks' h.2]
  | [], _ :: _, h => by simp [structEqL] at h
  | _ :: _, [], h => by simp [structEqL] at h
end

/-- structurally equal trees have equal structural hashes, for every hash function -/
theorem structEq_hash' (hLeaf : String → Nat) (hNode : String → List Nat → Nat) (a b : DTree)
    (h : structEq a b = true) : structHash hLeaf hNode a = structHash hLeaf hNode b :=
  structEq_hash_aux hLeaf hNode a b h

/-! #### trie keys (constants regenerated from src/isla/trie.py) -/

/-- flattened element codes -/
def encFlat : Path → Option (List Nat)
  | [] => some []
  | i :: p =>
    match PTree.encodeElem i, encFlat p with
    | some c, some r => some (c ++ r)
    | _, _ => none

theorem mapM_flatten (p : Path) : (p.mapM PTree.encodeElem).map List.flatten = encFlat p := by
  induction p with
  | nil => simp [encFlat]
  | cons i p ih =>
    rw [encFlat, ← ih, List.mapM_cons]
    cases PTree.encodeElem i <;> cases p.mapM PTree.encodeElem <;> simp

theorem encodeKey_eq (p : Path) : PTree.encodeKey p = (encFlat p).map (fun l => 1 :: l) := by
  rw [← mapM_flatten]
  cases p with
  | nil => simp [PTree.encodeKey]
  | cons i p => simp [PTree.encodeKey, Function.comp_def]

theorem pow_const : PTree.base ^ PTree.numDigits = 3906250000 := by
  simp [PTree.base, PTree.numDigits, Generated.Trie.base, Generated.Trie.numDigits]

theorem encodeElem_eq (i : Nat) : PTree.encodeElem i =
    if i < 252 then some [i + 2]
    else if 3906250000 ≤ i - 252 then none
    else some (254 :: PTree.digitsBE 250 4 (i - 252)) := by
  unfold PTree.encodeElem
  rw [pow_const]
  rfl

theorem keyBound_eq : keyBound = 3906250252 := by
  unfold keyBound
  rw [pow_const]
  rfl

/-- the two shapes of an element code -/
theorem encodeElem_cases {i : Nat} {c : List Nat} (h : PTree.encodeElem i = some c) :
    (i < 252 ∧ c = [i + 2]) ∨
    (252 ≤ i ∧ i - 252 < 3906250000 ∧ c = 254 :: PTree.digitsBE 250 4 (i - 252)) := by
  rw [encodeElem_eq] at h
  split at h
  · left; simp at h; exact ⟨by assumption, h.symm⟩
  · right
    split at h
    · simp at h
    · simp at h; exact ⟨by omega, by omega, h.symm⟩

theorem digits_eq (r : Nat) : PTree.digitsBE 250 4 r =
    [r / 15625000 % 250 + 2, r / 62500 % 250 + 2, r / 250 % 250 + 2, r % 250 + 2] := by
  simp [PTree.digitsBE]

theorem digits_fold (r : Nat) (h : r < 3906250000) :
    (PTree.digitsBE 250 4 r).foldl (fun acc d => acc * 250 + (d - 2)) 0 = r := by
  rw [digits_eq]
  simp only [List.foldl_cons, List.foldl_nil]
  omega

theorem encodeKey_total' (p : Path) (h : ∀ i ∈ p, i < keyBound) : ∃ k, PTree.encodeKey p = some k := by
  rw [encodeKey_eq]
  suffices ∃ k, encFlat p = some k by
    obtain ⟨k, hk⟩ := this; exact ⟨_, by rw [hk]; rfl⟩
  induction p with
  | nil => exact ⟨_, rfl⟩
  | cons i p ih =>
    obtain ⟨k, hk⟩ := ih (fun j hj => h j (List.mem_cons_of_mem _ hj))
    have hi := h i (by simp)
    have : ∃ c, PTree.encodeElem i = some c := by
      rw [encodeElem_eq]
      rw [keyBound_eq] at hi
      split
      · exact ⟨_, rfl⟩
      · split
        · omega
        · exact ⟨_, rfl⟩
    obtain ⟨c, hc⟩ := this
    exact ⟨c ++ k, by simp [encFlat, hc, hk]⟩

theorem encFlat_cons {i : Nat} {p : Path} {k : List Nat} (h : encFlat (i :: p) = some k) :
    ∃ c r, PTree.encodeElem i = some c ∧ encFlat p = some r ∧ k = c ++ r := by
  rw [encFlat] at h
  cases hc : PTree.encodeElem i with
  | none => simp [hc] at h
  | some c =>
    cases hr : encFlat p with
    | none => simp [hc, hr] at h
    | some r => simp [hc, hr] at h; exact ⟨c, r, rfl, rfl, h.symm⟩


theorem decodeChars_single (fuel c : Nat) (cs : List Nat) (h : c ≠ 254) :
    PTree.decodeChars (fuel + 1) (c :: cs) = (c - 2) :: PTree.decodeChars fuel cs := by
  rw [PTree.decodeChars]
  simp [PTree.escapeChar, Generated.Trie.escapeChar, h]

theorem decodeChars_esc (fuel : Nat) (cs : List Nat) :
    PTree.decodeChars (fuel + 1) (254 :: cs) =
      ((cs.take 4).foldl (fun acc d => acc * 250 + (d - 2)) 0 + 252) ::
        PTree.decodeChars fuel (cs.drop 4) := by
  rw [PTree.decodeChars]
  simp [PTree.escapeChar, Generated.Trie.escapeChar, PTree.numDigits, Generated.Trie.numDigits,
    PTree.base, Generated.Trie.base, PTree.singleLimit, Generated.Trie.singleLimit]

theorem decodeChars_nil (fuel : Nat) : PTree.decodeChars fuel [] = [] := by
  cases fuel <;> simp [PTree.decodeChars]

theorem decode_flat (p : Path) : ∀ (cs : List Nat), encFlat p = some cs →
    ∀ fuel, cs.length ≤ fuel → PTree.decodeChars fuel cs = p := by
  induction p with
  | nil =>
    intro cs h fuel _
    simp [encFlat] at h
    subst h
    rw [decodeChars_nil]
  | cons i p ih =>
    intro cs h fuel hf
    obtain ⟨c, r, hc, hr, rfl⟩ := encFlat_cons h
    rcases encodeElem_cases hc with ⟨hi, rfl⟩ | ⟨hi, hi2, rfl⟩
    · cases fuel with
      | zero => simp at hf
      | succ fuel =>
        simp at hf
        rw [List.singleton_append, decodeChars_single _ _ _ (by omega), ih r hr fuel hf]
        simp
    · cases fuel with
      | zero => simp at hf
      | succ fuel =>
        have hfold := digits_fold (i - 252) hi2
        rw [digits_eq] at hfold hf
        simp at hf
        rw [List.cons_append, decodeChars_esc, digits_eq]
        simp only [List.cons_append, List.nil_append, List.take_succ_cons, List.take_zero,
          List.drop_succ_cons, List.drop_zero]
        have e : i - 252 + 252 = i := by omega
        rw [hfold, ih r hr fuel (by omega), e]

theorem encFlat_range (p : Path) : ∀ (cs : List Nat), encFlat p = some cs →
    ∀ c ∈ cs, 2 ≤ c ∧ c ≤ 254 := by
  induction p with
  | nil =>
    intro cs h
    simp [encFlat] at h
    subst h
    simp
  | cons i p ih =>
    intro cs h c hm
    obtain ⟨ci, r, hc, hr, rfl⟩ := encFlat_cons h
    rcases List.mem_append.1 hm with hm | hm
    · rcases encodeElem_cases hc with ⟨hi, rfl⟩ | ⟨hi, hi2, rfl⟩
      · simp at hm; omega
      · rw [digits_eq] at hm
        simp at hm
        omega
    · exact ih r hr c hm

theorem encodeKey_some {p : Path} {k : List Nat} (h : PTree.encodeKey p = some k) :
    ∃ cs, encFlat p = some cs ∧ k = 1 :: cs := by
  rw [encodeKey_eq] at h
  cases hc : encFlat p with
  | none => simp [hc] at h
  | some cs => simp [hc] at h; exact ⟨cs, rfl, h.symm⟩

theorem decode_encode' (p : Path) (k : List Nat) (h : PTree.encodeKey p = some k) :
    PTree.decodeKey k = some p := by
  obtain ⟨cs, hcs, rfl⟩ := encodeKey_some h
  have hfil : cs.filter (· != 1) = cs := by
    rw [List.filter_eq_self]
    intro c hc
    have := encFlat_range p cs hcs c hc
    simp; omega
  simp only [PTree.decodeKey, hfil]
  rw [decode_flat p cs hcs _ (Nat.le_refl _)]

/-- every character of a key is inside the alphabet given to datrie (so no key is silently dropped) -/
theorem encodeKey_alphabet' (p : Path) (k : List Nat) (h : PTree.encodeKey p = some k) :
    ∀ c ∈ k, Generated.Trie.alphabetLo ≤ c ∧ c ≤ Generated.Trie.alphabetHi := by
  obtain ⟨cs, hcs, rfl⟩ := encodeKey_some h
  intro c hc
  simp only [Generated.Trie.alphabetLo, Generated.Trie.alphabetHi]
  rcases List.mem_cons.1 hc with rfl | hc
  · omega
  · have := encFlat_range p cs hcs c hc
    omega

theorem append_prefix_append_of_length {α : Type} {l1 l2 A B : List α} (hl : l1.length = l2.length) :
    l1 ++ A <+: l2 ++ B ↔ l1 = l2 ∧ A <+: B := by
  constructor
  · rintro ⟨t, ht⟩
    rw [List.append_assoc] at ht
    obtain ⟨h1, h2⟩ := List.append_inj ht hl
    exact ⟨h1, t, h2⟩
  · rintro ⟨rfl, h⟩
    exact (List.prefix_append_right_inj _).2 h

theorem code_prefix {i j : Nat} {ci cj A B : List Nat} (hi : PTree.encodeElem i = some ci)
    (hj : PTree.encodeElem j = some cj) : ci ++ A <+: cj ++ B ↔ i = j ∧ A <+: B := by
  constructor
  · intro h
    rcases encodeElem_cases hi with ⟨hi1, rfl⟩ | ⟨hi1, hi2, rfl⟩ <;>
      rcases encodeElem_cases hj with ⟨hj1, rfl⟩ | ⟨hj1, hj2, rfl⟩
    · simp only [List.singleton_append, List.cons_prefix_cons] at h
      exact ⟨by omega, h.2⟩
    · simp only [List.cons_append, List.cons_prefix_cons] at h
      omega
    · simp only [List.cons_append, List.cons_prefix_cons] at h
      omega
    · simp only [List.cons_append, List.cons_prefix_cons, true_and] at h
      rw [append_prefix_append_of_length (by simp [digits_eq])] at h
      have h1 := digits_fold _ hi2
      have h2 := digits_fold _ hj2
      rw [h.1, h2] at h1
      exact ⟨by omega, h.2⟩
  · rintro ⟨rfl, h⟩
    rw [hi] at hj
    cases hj
    exact (List.prefix_append_right_inj _).2 h

theorem encFlat_prefix (p : Path) : ∀ (q : Path) (a b : List Nat), encFlat p = some a → encFlat q = some b →
    (p <+: q ↔ a <+: b) := by
  induction p with
  | nil =>
    intro q a b ha hb
    simp [encFlat] at ha
    subst ha
    simp
  | cons i p ih =>
    intro q a b ha hb
    obtain ⟨ci, a', hci, ha', rfl⟩ := encFlat_cons ha
    cases q with
    | nil =>
      simp [encFlat] at hb
      subst hb
      rcases encodeElem_cases hci with ⟨_, rfl⟩ | ⟨_, _, rfl⟩ <;> simp
    | cons j q =>
      obtain ⟨cj, b', hcj, hb', rfl⟩ := encFlat_cons hb
      rw [List.cons_prefix_cons, code_prefix hci hcj, ih q a' b' ha' hb']

/-- keys preserve the prefix relation (sub-tries are subtrees) -/
theorem encodeKey_prefix' (p q : Path) (k k' : List Nat)
    (hp : PTree.encodeKey p = some k) (hq : PTree.encodeKey q = some k') : p <+: q ↔ k <+: k' := by
  obtain ⟨a, ha, rfl⟩ := encodeKey_some hp
  obtain ⟨b, hb, rfl⟩ := encodeKey_some hq
  rw [List.cons_prefix_cons, encFlat_prefix p q a b ha hb]
  simp

end IslaVerif.C16
