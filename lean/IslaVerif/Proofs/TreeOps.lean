import IslaVerif.Model.TreeOps
import IslaVerif.Proofs.C04
import IslaVerif.Proofs.C16b
namespace IslaVerif
namespace DTree
open Grammar

/-- declarative version of `idPrefixOf` -/
inductive IdPrefix : DTree → DTree → Prop
  | leaf (i : Nat) (s : String) (b : DTree) : b.id = i → b.sym = s → IdPrefix (openLeaf i s) b
  | node (i : Nat) (s : String) (ks ks' : List DTree) :
      ks.length = ks'.length → (∀ n (h : n < ks.length) (h' : n < ks'.length), IdPrefix ks[n] ks'[n]) →
      IdPrefix (node i s ks) (node i s ks')

/-- pointwise characterisation of `idPrefixOfL` -/
theorem idPrefixOfL_iff_forall : ∀ (ks ks' : List DTree), idPrefixOfL ks ks' = true ↔
    ks.length = ks'.length ∧ ∀ n (h : n < ks.length) (h' : n < ks'.length), idPrefixOf ks[n] ks'[n] = true
  | [], [] => by simp [idPrefixOfL]
  | [], _ :: _ => by simp [idPrefixOfL]
  | _ :: _, [] => by simp [idPrefixOfL]
  | a :: as, b :: bs => by
    rw [idPrefixOfL, Bool.and_eq_true, idPrefixOfL_iff_forall as bs]
    constructor
    · rintro ⟨h1, hl, h2⟩
      refine ⟨by simp [hl], ?_⟩
      intro n h h'
      cases n with
      | zero => simpa using h1
      | succ n => simpa using h2 n (by simpa using h) (by simpa using h')
    · rintro ⟨hl, h⟩
      refine ⟨h 0 (by simp) (by simp), by simpa using hl, ?_⟩
      intro n h1 h2
      exact h (n+1) (by simpa using h1) (by simpa using h2)

theorem idPrefixOf_id_sym (a b : DTree) (h : idPrefixOf a b = true) : b.id = a.id ∧ b.sym = a.sym := by
  cases a with
  | openLeaf i s =>
    simp [idPrefixOf] at h
    simp [DTree.id, DTree.sym, h.1, h.2]
  | node i s ks =>
    cases b with
    | openLeaf j s' => simp [idPrefixOf] at h
    | node j s' ks' =>
      simp [idPrefixOf] at h
      simp [DTree.id, DTree.sym, h.1.1, h.1.2]

mutual
theorem idPrefixOf_iff_aux : ∀ (a b : DTree), idPrefixOf a b = true ↔ IdPrefix a b
  | .openLeaf i s, b => by
    simp only [idPrefixOf, Bool.and_eq_true, beq_iff_eq]
    constructor
    · rintro ⟨h1, h2⟩; exact IdPrefix.leaf i s b h1.symm h2.symm
    · intro h; cases h with
      | leaf _ _ _ h1 h2 => exact ⟨h1.symm, h2.symm⟩
  | .node i s ks, .openLeaf j s' => by
    simp only [idPrefixOf]
    constructor
    · intro h; cases h
    · intro h; cases h
  | .node i s ks, .node j s' ks' => by
    simp only [idPrefixOf, Bool.and_eq_true, beq_iff_eq]
    rw [idPrefixOfL_iff_aux ks ks']
    constructor
    · rintro ⟨⟨rfl, rfl⟩, hl, h⟩
      exact IdPrefix.node i s ks ks' hl h
    · intro h
      cases h with
      | node _ _ _ _ hl h => exact ⟨⟨rfl, rfl⟩, hl, h⟩
theorem idPrefixOfL_iff_aux : ∀ (ks ks' : List DTree), idPrefixOfL ks ks' = true ↔
    ks.length = ks'.length ∧ ∀ n (h : n < ks.length) (h' : n < ks'.length), IdPrefix ks[n] ks'[n]
  | [], [] => by simp [idPrefixOfL]
  | [], _ :: _ => by simp [idPrefixOfL]
  | _ :: _, [] => by simp [idPrefixOfL]
  | a :: as, b :: bs => by
    rw [idPrefixOfL, Bool.and_eq_true, idPrefixOfL_iff_aux as bs, idPrefixOf_iff_aux a b]
    constructor
    · rintro ⟨h1, hl, h2⟩
      refine ⟨by simp [hl], ?_⟩
      intro n h h'
      cases n with
      | zero => simpa using h1
      | succ n => simpa using h2 n (by simpa using h) (by simpa using h')
    · rintro ⟨hl, h⟩
      refine ⟨h 0 (by simp) (by simp), by simpa using hl, ?_⟩
      intro n h1 h2
      exact h (n+1) (by simpa using h1) (by simpa using h2)
end

theorem idPrefixOf_iff' (a b : DTree) : idPrefixOf a b = true ↔ IdPrefix a b := idPrefixOf_iff_aux a b

mutual
theorem idPrefixOf_refl_aux : ∀ (t : DTree), idPrefixOf t t = true
  | .openLeaf i s => by simp [idPrefixOf, DTree.id, DTree.sym]
  | .node i s ks => by simp [idPrefixOf, idPrefixOfL_refl_aux ks]
theorem idPrefixOfL_refl_aux : ∀ (ks : List DTree), idPrefixOfL ks ks = true
  | [] => by simp [idPrefixOfL]
  | k :: ks => by simp [idPrefixOfL, idPrefixOf_refl_aux k, idPrefixOfL_refl_aux ks]
end

theorem idPrefixOf_refl' (t : DTree) : idPrefixOf t t = true := idPrefixOf_refl_aux t

mutual
theorem idPrefixOf_trans_aux : ∀ (a b c : DTree), idPrefixOf a b = true → idPrefixOf b c = true →
    idPrefixOf a c = true
  | .openLeaf i s, b, c, h1, h2 => by
    have hb := idPrefixOf_id_sym _ _ h2
    simp [idPrefixOf] at h1 ⊢
    rw [hb.1, hb.2]; exact h1
  | .node i s ks, .openLeaf j s', c, h1, h2 => by simp [idPrefixOf] at h1
  | .node i s ks, .node j s' ks', .openLeaf l s'', h1, h2 => by simp [idPrefixOf] at h2
  | .node i s ks, .node j s' ks', .node l s'' ks'', h1, h2 => by
    simp [idPrefixOf] at h1 h2 ⊢
    exact ⟨⟨h1.1.1.trans h2.1.1, h1.1.2.trans h2.1.2⟩, idPrefixOfL_trans_aux ks ks' ks'' h1.2 h2.2⟩
theorem idPrefixOfL_trans_aux : ∀ (as bs cs : List DTree), idPrefixOfL as bs = true → idPrefixOfL bs cs = true →
    idPrefixOfL as cs = true
  | [], [], [], _, _ => by simp [idPrefixOfL]
  | [], [], _ :: _, _, h2 => by simp [idPrefixOfL] at h2
  | [], _ :: _, _, h1, _ => by simp [idPrefixOfL] at h1
  | _ :: _, [], _, h1, _ => by simp [idPrefixOfL] at h1
  | _ :: _, _ :: _, [], _, h2 => by simp [idPrefixOfL] at h2
  | a :: as, b :: bs, c :: cs, h1, h2 => by
    simp [idPrefixOfL] at h1 h2 ⊢
    exact ⟨idPrefixOf_trans_aux a b c h1.1 h2.1, idPrefixOfL_trans_aux as bs cs h1.2 h2.2⟩
end

theorem idPrefixOf_trans' (a b c : DTree) (h1 : idPrefixOf a b = true) (h2 : idPrefixOf b c = true) :
    idPrefixOf a c = true := idPrefixOf_trans_aux a b c h1 h2

/-! ### validity -/

theorem validL_iff (g : Grammar) : ∀ (ks : List DTree), validL g ks = true ↔ ∀ k ∈ ks, k.valid g = true
  | [] => by simp [validL]
  | k :: ks => by simp [validL, validL_iff g ks]

theorem valid_node_of_alts {g : Grammar} {i : Nat} {s : String} {ks : List DTree} {as : List (List String)}
    (hs : alts g s = some as) :
    (node i s ks).valid g = ((as.any fun alt => kidsMatch alt (ks.map DTree.sym)) && validL g ks) := by
  rw [valid, hs]

theorem valid_node_of_not_alts {g : Grammar} {i : Nat} {s : String} {ks : List DTree}
    (hs : alts g s = none) : (node i s ks).valid g = ks.isEmpty := by
  rw [valid, hs]

theorem validL_set (g : Grammar) (ks : List DTree) (j : Nat) (k' : DTree) (h : validL g ks = true)
    (hk : k'.valid g = true) : validL g (ks.set j k') = true := by
  rw [validL_iff] at h ⊢
  intro k hm
  rcases List.mem_or_eq_of_mem_set hm with hm | rfl
  · exact h k hm
  · exact hk

theorem map_sym_set (ks : List DTree) (j : Nat) (k k' : DTree) (hk : ks[j]? = some k) (hs : k'.sym = k.sym) :
    (ks.set j k').map DTree.sym = ks.map DTree.sym := by
  rw [List.map_set, hs]
  apply List.ext_getElem?
  intro n
  by_cases hn : j = n
  · subst hn
    rcases List.getElem?_eq_some_iff.1 hk with ⟨hj, hk'⟩
    simp [hj, hk']
  · simp [List.getElem?_set_ne hn]

/-- subtrees of valid trees are valid -/
theorem valid_get (g : Grammar) : ∀ (p : Path) (t u : DTree), t.valid g = true → t.get p = some u →
    u.valid g = true := by
  intro p
  induction p with
  | nil => intro t u hv hg; simp [DTree.get] at hg; subst hg; exact hv
  | cons j p ih =>
    intro t u hv hg
    cases t with
    | openLeaf i s => simp [DTree.get, DTree.kids] at hg
    | node i s ks =>
      simp only [DTree.get, DTree.kids] at hg
      cases hk : ks[j]? with
      | none => simp [hk] at hg
      | some k =>
        simp only [hk] at hg
        have hm : k ∈ ks := List.mem_of_getElem? hk
        refine ih k u ?_ hg
        cases hs : alts g s with
        | none =>
          rw [valid_node_of_not_alts hs] at hv
          cases ks with
          | nil => simp at hm
          | cons _ _ => simp at hv
        | some as =>
          rw [valid_node_of_alts hs, Bool.and_eq_true] at hv
          exact (validL_iff g ks).1 hv.2 k hm

/-- replacing a subtree by a valid tree with the same symbol keeps validity and the root -/
theorem valid_replace' (g : Grammar) : ∀ (p : Path) (t u old t' : DTree), t.valid g = true → u.valid g = true →
    t.get p = some old → old.sym = u.sym → t.replace p u = some t' →
    t'.valid g = true ∧ t'.sym = t.sym := by
  intro p
  induction p with
  | nil =>
    intro t u old t' hv hu hg hsym hr
    simp [DTree.get] at hg
    simp [replace] at hr
    subst hg; subst hr
    exact ⟨hu, hsym.symm⟩
  | cons j p ih =>
    intro t u old t' hv hu hg hsym hr
    obtain ⟨i, s, ks, k, k', rfl, hk, hrk, rfl⟩ := C16.replace_cons_inv hr
    simp only [DTree.get, DTree.kids, hk] at hg
    have hm : k ∈ ks := List.mem_of_getElem? hk
    have hkv : k.valid g = true := valid_get g [j] (node i s ks) k hv (by simp [DTree.get, DTree.kids, hk])
    obtain ⟨hk'v, hk's⟩ := ih k u old k' hkv hu hg hsym hrk
    refine ⟨?_, by simp [DTree.sym]⟩
    cases hs : alts g s with
    | none =>
      rw [valid_node_of_not_alts hs] at hv
      cases ks with
      | nil => simp at hm
      | cons _ _ => simp at hv
    | some as =>
      rw [valid_node_of_alts hs, Bool.and_eq_true] at hv ⊢
      rw [map_sym_set ks j k k' hk hk's]
      exact ⟨hv.1, validL_set g ks j k' hv.2 hk'v⟩

theorem not_isNT_alts {g : Grammar} {s : String} (h : isNT g s = false) : alts g s = none := by
  simpa [isNT, alts] using h

theorem altKids_spec (g : Grammar) (alt : List String) (ids : List Nat) (h0 : isNT g "" = false) :
    validL g (altKids g alt ids) = true ∧ kidsMatch alt ((altKids g alt ids).map DTree.sym) = true := by
  have hε : ∀ i, (node i "" []).valid g = true := fun i => by
    rw [valid_node_of_not_alts (not_isNT_alts h0)]; rfl
  cases alt with
  | nil =>
    cases ids with
    | nil => simp [altKids, validL, hε, kidsMatch, DTree.sym]
    | cons i _ => simp [altKids, validL, hε, kidsMatch, DTree.sym]
  | cons x xs =>
    rw [altKids.eq_3 g (x :: xs) ids (by simp) (by simp)]
    constructor
    · rw [validL_iff]
      intro k hk
      simp only [List.mem_map, Prod.exists] at hk
      obtain ⟨s, i, _, rfl⟩ := hk
      by_cases hnt : isNT g s = true
      · simp [hnt, valid]
      · have hnt' : isNT g s = false := by simpa using hnt
        simp only [hnt', Bool.false_eq_true, if_false]
        rw [valid_node_of_not_alts (not_isNT_alts hnt')]; rfl
    · have hm : (List.map (fun x => match x with
            | (s, i) => if g.isNT s = true then openLeaf i s else node i s [])
          ((x :: xs).zip (ids ++ List.replicate (x :: xs).length 0))).map DTree.sym = x :: xs := by
        rw [List.map_map]
        have : (DTree.sym ∘ fun x : String × Nat => match x with
            | (s, i) => if g.isNT s = true then openLeaf i s else node i s []) = Prod.fst := by
          funext ⟨s, i⟩
          simp only [Function.comp]
          split <;> rfl
        rw [this, List.map_fst_zip]
        simp
      rw [hm]
      simp [kidsMatch]

/-- the children built for an alternative of `s` make a valid node -/
theorem valid_altNode' (g : Grammar) (i : Nat) (s : String) (alt : List String) (ids : List Nat)
    (as : List (List String)) (hs : alts g s = some as) (ha : alt ∈ as) (h0 : isNT g "" = false) :
    (node i s (altKids g alt ids)).valid g = true := by
  obtain ⟨h1, h2⟩ := altKids_spec g alt ids h0
  rw [valid_node_of_alts hs, Bool.and_eq_true]
  exact ⟨List.any_eq_true.2 ⟨alt, ha, h2⟩, h1⟩

/-- replacing an open leaf by a tree with the same identity and symbol extends the tree -/
theorem idPrefixOf_replace : ∀ (p : Path) (t u t' : DTree) (i : Nat) (s : String),
    t.get p = some (openLeaf i s) → u.id = i → u.sym = s → t.replace p u = some t' →
    idPrefixOf t t' = true := by
  intro p
  induction p with
  | nil =>
    intro t u t' i s hg hi hs hr
    simp [DTree.get] at hg
    simp [replace] at hr
    subst hg; subst hr
    simp [idPrefixOf, hi, hs]
  | cons j p ih =>
    intro t u t' i s hg hi hs hr
    obtain ⟨i', s', ks, k, k', rfl, hk, hrk, rfl⟩ := C16.replace_cons_inv hr
    simp only [DTree.get, DTree.kids, hk] at hg
    have hkk := ih k u k' i s hg hi hs hrk
    rcases List.getElem?_eq_some_iff.1 hk with ⟨hj, hkj⟩
    simp only [idPrefixOf, beq_self_eq_true, Bool.true_and]
    rw [idPrefixOfL_iff_forall]
    refine ⟨by simp, ?_⟩
    intro n h h'
    by_cases hn : j = n
    · subst hn
      simp only [List.getElem_set_self, hkj]
      exact hkk
    · simp only [List.getElem_set_ne hn]
      exact idPrefixOf_refl' _

/-- one expansion step with an alternative of the leaf's symbol keeps validity, the root and every
already expanded part (identities included) -/
theorem valid_expandAt' (g : Grammar) (t t' : DTree) (p : Path) (alt : List String) (ids : List Nat)
    (i : Nat) (s : String) (as : List (List String))
    (hv : t.valid g = true) (hg : t.get p = some (openLeaf i s)) (hs : alts g s = some as) (ha : alt ∈ as)
    (h0 : isNT g "" = false) (he : expandAt g t p alt ids = some t') :
    t'.valid g = true ∧ t'.sym = t.sym ∧ idPrefixOf t t' = true := by
  simp only [expandAt, hg] at he
  have hu := valid_altNode' g i s alt ids as hs ha h0
  obtain ⟨h1, h2⟩ := valid_replace' g p t _ _ t' hv hu hg rfl he
  exact ⟨h1, h2, idPrefixOf_replace p t _ t' i s hg rfl rfl he⟩

/-- the steps of a run are well chosen: each applicable step uses an alternative of the leaf's symbol -/
def StepsOk (g : Grammar) : DTree → List (Path × List String × List Nat) → Prop
  | _, [] => True
  | t, (p, alt, ids) :: rest =>
    match expandAt g t p alt ids with
    | some t' => (∃ i s as, t.get p = some (openLeaf i s) ∧ alts g s = some as ∧ alt ∈ as) ∧ StepsOk g t' rest
    | none => StepsOk g t rest

/-- ANY sequence of expansion steps keeps validity, the root and the input as identity-preserving prefix -/
theorem expandRun_ok' (g : Grammar) (h0 : isNT g "" = false) :
    ∀ (steps : List (Path × List String × List Nat)) (t : DTree), t.valid g = true → StepsOk g t steps →
    (expandRun g t steps).valid g = true ∧ (expandRun g t steps).sym = t.sym ∧
    idPrefixOf t (expandRun g t steps) = true := by
  intro steps
  induction steps with
  | nil => intro t hv _; exact ⟨hv, rfl, idPrefixOf_refl' t⟩
  | cons st rest ih =>
    intro t hv hok
    obtain ⟨p, alt, ids⟩ := st
    simp only [StepsOk] at hok
    simp only [expandRun]
    cases he : expandAt g t p alt ids with
    | none =>
      simp only [he] at hok
      exact ih t hv hok
    | some t' =>
      simp only [he] at hok
      obtain ⟨⟨i, s, as, hg, hs, ha⟩, hok'⟩ := hok
      obtain ⟨h1, h2, h3⟩ := valid_expandAt' g t t' p alt ids i s as hv hg hs ha h0 he
      obtain ⟨r1, r2, r3⟩ := ih t' h1 hok'
      exact ⟨r1, r2.trans h2, idPrefixOf_trans' _ _ _ h3 r3⟩

/-- swapping two subtrees with the same symbol at positions neither of which lies below the other
keeps validity and the root -/
theorem valid_swap' (g : Grammar) (t t' a b : DTree) (p q : Path)
    (hv : t.valid g = true) (ha : t.get p = some a) (hb : t.get q = some b) (hsym : a.sym = b.sym)
    (hpq : ¬ p <+: q) (hqp : ¬ q <+: p) (hs : swap t p q = some t') :
    t'.valid g = true ∧ t'.sym = t.sym := by
  simp only [swap, ha, hb] at hs
  cases h1 : t.replace p b with
  | none => simp [h1] at hs
  | some t1 =>
    simp only [h1] at hs
    have hav := valid_get g p t a hv ha
    have hbv := valid_get g q t b hv hb
    obtain ⟨v1, s1⟩ := valid_replace' g p t b a t1 hv hbv ha hsym h1
    have hq1 : t1.get q = some b := by
      rw [C16.replace_get_disjoint' t t1 b p q h1 hpq hqp]; exact hb
    obtain ⟨v2, s2⟩ := valid_replace' g q t1 a b t' v1 hav hq1 hsym.symm hs
    exact ⟨v2, s2.trans s1⟩

/-- declarative version of `embedsAt` -/
inductive Embeds : DTree → DTree → Prop
  | hole (i : Nat) (s : String) (b : DTree) : b.sym = s → Embeds (openLeaf i s) b
  | node (i : Nat) (s : String) (ks ks' : List DTree) :
      ks.length = ks'.length → (∀ n (h : n < ks.length) (h' : n < ks'.length), Embeds ks[n] ks'[n]) →
      Embeds (node i s ks) (node i s ks')

mutual
theorem embedsAt_iff_aux : ∀ (a b : DTree), embedsAt a b = true ↔ Embeds a b
  | .openLeaf i s, b => by
    simp only [embedsAt, beq_iff_eq]
    constructor
    · intro h; exact Embeds.hole i s b h.symm
    · intro h; cases h with
      | hole _ _ _ h1 => exact h1.symm
  | .node i s ks, .openLeaf j s' => by
    simp only [embedsAt]
    constructor
    · intro h; cases h
    · intro h; cases h
  | .node i s ks, .node j s' ks' => by
    simp only [embedsAt, Bool.and_eq_true, beq_iff_eq]
    rw [embedsAtL_iff_aux ks ks']
    constructor
    · rintro ⟨⟨rfl, rfl⟩, hl, h⟩
      exact Embeds.node i s ks ks' hl h
    · intro h
      cases h with
      | node _ _ _ _ hl h => exact ⟨⟨rfl, rfl⟩, hl, h⟩
theorem embedsAtL_iff_aux : ∀ (ks ks' : List DTree), embedsAtL ks ks' = true ↔
    ks.length = ks'.length ∧ ∀ n (h : n < ks.length) (h' : n < ks'.length), Embeds ks[n] ks'[n]
  | [], [] => by simp [embedsAtL]
  | [], _ :: _ => by simp [embedsAtL]
  | _ :: _, [] => by simp [embedsAtL]
  | a :: as, b :: bs => by
    rw [embedsAtL, Bool.and_eq_true, embedsAtL_iff_aux as bs, embedsAt_iff_aux a b]
    constructor
    · rintro ⟨h1, hl, h2⟩
      refine ⟨by simp [hl], ?_⟩
      intro n h h'
      cases n with
      | zero => simpa using h1
      | succ n => simpa using h2 n (by simpa using h) (by simpa using h')
    · rintro ⟨hl, h⟩
      refine ⟨h 0 (by simp) (by simp), by simpa using hl, ?_⟩
      intro n h1 h2
      exact h (n+1) (by simpa using h1) (by simpa using h2)
end

theorem embedsAt_iff' (a b : DTree) : embedsAt a b = true ↔ Embeds a b := embedsAt_iff_aux a b

/-- an identity-preserving prefix is in particular embedded -/
theorem embeds_of_idPrefix' : ∀ (a b : DTree), IdPrefix a b → Embeds a b
  | _, _, .leaf i s b _ h2 => Embeds.hole i s b h2
  | _, _, .node i s ks ks' hl h => Embeds.node i s ks ks' hl (fun n h1 h2 => embeds_of_idPrefix' _ _ (h n h1 h2))

/-- declarative reading of `keepsNode` -/
def KeepsNode (u v : DTree) : Prop :=
  v.id = u.id ∧ v.sym = u.sym ∧
  (∀ i s ks, u = node i s ks → ∃ j s' ks', v = node j s' ks' ∧ ks'.map DTree.sym = ks.map DTree.sym)

theorem keepsNode_iff' (u v : DTree) : keepsNode u v = true ↔ KeepsNode u v := by
  unfold keepsNode KeepsNode
  cases u with
  | openLeaf i s =>
    simp only [Bool.and_eq_true, beq_iff_eq, and_true]
    constructor
    · rintro ⟨h1, h2⟩; exact ⟨h1, h2, by intro i s ks h; cases h⟩
    · rintro ⟨h1, h2, _⟩; exact ⟨h1, h2⟩
  | node i s ks =>
    cases v with
    | openLeaf j s' =>
      simp only [Bool.and_eq_true, beq_iff_eq]
      constructor
      · rintro ⟨_, h⟩; cases h
      · rintro ⟨_, _, h⟩
        obtain ⟨_, _, _, h', _⟩ := h i s ks rfl
        cases h'
    | node j s' ks' =>
      simp only [Bool.and_eq_true, beq_iff_eq]
      constructor
      · rintro ⟨⟨h1, h2⟩, h3⟩
        refine ⟨h1, h2, ?_⟩
        intro i0 s0 ks0 h
        cases h
        exact ⟨j, s', ks', rfl, h3⟩
      · rintro ⟨h1, h2, h3⟩
        obtain ⟨_, _, _, h', h4⟩ := h3 i s ks rfl
        cases h'
        exact ⟨⟨h1, h2⟩, h4⟩

theorem insertCheck_sound' (g : Grammar) (host ins r : DTree) (h : insertCheck g host ins r = true) :
    r.valid g = true ∧ r.sym = host.sym ∧
    (∀ p u, host.get p = some u → ∃ q v, r.get q = some v ∧ KeepsNode u v) ∧
    (∃ q v, r.get q = some v ∧ Embeds ins v) := by
  simp only [insertCheck, Bool.and_eq_true, beq_iff_eq] at h
  obtain ⟨⟨⟨h1, h2⟩, h3⟩, h4⟩ := h
  refine ⟨h1, h2, ?_, ?_⟩
  · intro p u hg
    rw [List.all_eq_true] at h3
    have hc := h3 (p, u) ((C04.mem_paths_iff host p u).2 hg)
    rw [List.any_eq_true] at hc
    obtain ⟨⟨q, v⟩, hqv, hk⟩ := hc
    exact ⟨q, v, (C04.mem_paths_iff r q v).1 hqv, (keepsNode_iff' u v).1 hk⟩
  · rw [List.any_eq_true] at h4
    obtain ⟨⟨q, v⟩, hqv, hp⟩ := h4
    exact ⟨q, v, (C04.mem_paths_iff r q v).1 hqv, (embedsAt_iff' ins v).1 hp⟩

theorem embedsAt_sym (a b : DTree) (h : embedsAt a b = true) : b.sym = a.sym := by
  cases a with
  | openLeaf i s =>
    simp [embedsAt] at h
    simp [DTree.sym, h]
  | node i s ks =>
    cases b with
    | openLeaf j s' => simp [embedsAt] at h
    | node j s' ks' =>
      simp [embedsAt] at h
      simp [DTree.sym, h.1.2]

theorem completionCheck_sound' (g : Grammar) (t r : DTree) (h : completionCheck g t r = true) :
    r.valid g = true ∧ r.closed = true ∧ Embeds t r ∧ r.sym = t.sym := by
  simp only [completionCheck, Bool.and_eq_true] at h
  obtain ⟨⟨h1, h2⟩, h3⟩ := h
  exact ⟨h1, h2, (embedsAt_iff' t r).1 h3, embedsAt_sym t r h3⟩

theorem mutationCheck_sound' (g : Grammar) (t r : DTree) (h : mutationCheck g t r = true) :
    r.valid g = true ∧ r.closed = true ∧ r.sym = t.sym := by
  simp only [mutationCheck, Bool.and_eq_true, beq_iff_eq] at h
  exact ⟨h.1.1, h.1.2, h.2⟩

end DTree
end IslaVerif

