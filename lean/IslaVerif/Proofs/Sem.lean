import IslaVerif.Model.Sem
import IslaVerif.Proofs.C04
/-
The Prop-valued specification `Sat` of ISLa constraints on a reference tree (islaspec.rst,
section "Semantics"), and the theorem that the executable reference evaluator `evalRef` — which
the real `evaluate()`, `ISLaSolver.check()` and the solver's outputs are compared with — is sound
for it: whenever `evalRef` gives a definite answer, the answer is the truth value of `Sat`.

`Sat` differs from `evalRef` exactly where an executable function must cut corners:
* tree quantifiers range over *all* (path, subtree) pairs of the `in` tree with the right label,
  stated through `DTree.get` (not through the enumeration `paths`);
* numeric quantifiers range over *all* natural numbers (`evalRef` searches `0 .. intBound-1` and
  answers only when that search is conclusive);
* atoms are true when their (separately verified) evaluators say `some true`.
-/
namespace IslaVerif.Sem
open IslaVerif

/-- the environments a tree quantifier without match expression ranges over -/
def TreeInst (w : World) (β : Env) (v ty inVar : String) (β' : Env) : Prop :=
  ∃ p sub q t, β.get inVar = some (.path p) ∧ w.root.get p = some sub ∧ sub.get q = some t ∧
    t.sym = ty ∧ β' = (v, Bind.path (p ++ q)) :: β

/-- the environments a tree quantifier with match expression ranges over: one per subtree with the
right label and per match-expression tree that matches it (islaspec: `match(t, t', P) ≠ ⊥`) -/
def MatchInst (w : World) (β : Env) (v ty inVar : String) (ms : List MTree) (β' : Env) : Prop :=
  ∃ p sub q t m bs, β.get inVar = some (.path p) ∧ w.root.get p = some sub ∧ sub.get q = some t ∧
    t.sym = ty ∧ m ∈ ms ∧ matchM (p ++ q) t m.tree m.binds = some bs ∧
    β' = (v, Bind.path (p ++ q)) :: (bs.map fun (x, r) => (x, Bind.path r)) ++ β

mutual
def Sat (w : World) : Env → Fm → Prop
  | β, .smt t => evalSmt w β t = some true
  | β, .pred name args => evalPred w β name args = some true
  | β, .count tv needle num => evalCount w β tv needle num = some true
  | β, .neg f => ¬ Sat w β f
  | β, .conj fs => SatAll w β fs
  | β, .disj fs => SatAny w β fs
  | β, .all v ty inVar none f => ∀ β', TreeInst w β v ty inVar β' → Sat w β' f
  | β, .ex v ty inVar none f => ∃ β', TreeInst w β v ty inVar β' ∧ Sat w β' f
  | β, .all v ty inVar (some ms) f => ∀ β', MatchInst w β v ty inVar ms β' → Sat w β' f
  | β, .ex v ty inVar (some ms) f => ∃ β', MatchInst w β v ty inVar ms β' ∧ Sat w β' f
  | β, .allInt v f => ∀ n : Nat, Sat w ((v, Bind.num n) :: β) f
  | β, .exInt v f => ∃ n : Nat, Sat w ((v, Bind.num n) :: β) f
def SatAll (w : World) : Env → List Fm → Prop
  | _, [] => True
  | β, f :: fs => Sat w β f ∧ SatAll w β fs
def SatAny (w : World) : Env → List Fm → Prop
  | _, [] => False
  | β, f :: fs => Sat w β f ∨ SatAny w β fs
end

/-! ### three-valued connectives and folds -/

theorem tvNot_eq (a : TV) (b : Bool) : tvNot a = some b ↔ a = some (!b) := by
  cases a with
  | none => simp [tvNot]
  | some x => cases x <;> cases b <;> simp [tvNot]

theorem tvAnd_eq_true (a b : TV) : tvAnd a b = some true ↔ a = some true ∧ b = some true := by
  rcases a with _ | _ | _ <;> rcases b with _ | _ | _ <;> simp [tvAnd]

theorem tvAnd_eq_false (a b : TV) : tvAnd a b = some false ↔ a = some false ∨ b = some false := by
  rcases a with _ | _ | _ <;> rcases b with _ | _ | _ <;> simp [tvAnd]

theorem tvOr_eq_false (a b : TV) : tvOr a b = some false ↔ a = some false ∧ b = some false := by
  rcases a with _ | _ | _ <;> rcases b with _ | _ | _ <;> simp [tvOr]

theorem tvOr_eq_true (a b : TV) : tvOr a b = some true ↔ a = some true ∨ b = some true := by
  rcases a with _ | _ | _ <;> rcases b with _ | _ | _ <;> simp [tvOr]

theorem foldAnd_eq_true {α : Type} (F : α → TV) (l : List α) :
    l.foldr (fun x acc => tvAnd (F x) acc) (some true) = some true ↔ ∀ x ∈ l, F x = some true := by
  induction l with
  | nil => simp
  | cons a l ih => simp [tvAnd_eq_true, ih]

theorem foldAnd_eq_false {α : Type} (F : α → TV) (l : List α) :
    l.foldr (fun x acc => tvAnd (F x) acc) (some true) = some false ↔ ∃ x ∈ l, F x = some false := by
  induction l with
  | nil => simp
  | cons a l ih => simp [tvAnd_eq_false, ih]

theorem foldOr_eq_false {α : Type} (F : α → TV) (l : List α) :
    l.foldr (fun x acc => tvOr (F x) acc) (some false) = some false ↔ ∀ x ∈ l, F x = some false := by
  induction l with
  | nil => simp
  | cons a l ih => simp [tvOr_eq_false, ih]

theorem foldOr_eq_true {α : Type} (F : α → TV) (l : List α) :
    l.foldr (fun x acc => tvOr (F x) acc) (some false) = some true ↔ ∃ x ∈ l, F x = some true := by
  induction l with
  | nil => simp
  | cons a l ih => simp [tvOr_eq_true, ih]

/-- a conclusive Kleene conjunction over an enumeration `l` of the instances `P` decides `∀` -/
theorem foldAnd_sound {α : Type} (F : α → TV) (S P : α → Prop) (l : List α)
    (hl : ∀ x, x ∈ l ↔ P x) (ih : ∀ x b, F x = some b → (b = true ↔ S x)) (b : Bool)
    (h : l.foldr (fun x acc => tvAnd (F x) acc) (some true) = some b) :
    b = true ↔ ∀ x, P x → S x := by
  cases b with
  | true =>
    have h' := (foldAnd_eq_true F l).1 h
    exact ⟨fun _ x hx => (ih x true (h' x ((hl x).2 hx))).1 rfl, fun _ => rfl⟩
  | false =>
    obtain ⟨x, hx, hF⟩ := (foldAnd_eq_false F l).1 h
    constructor
    · intro h0; cases h0
    · intro hall
      have := (ih x false hF).2 (hall x ((hl x).1 hx))
      cases this

/-- a conclusive Kleene disjunction over an enumeration `l` of the instances `P` decides `∃` -/
theorem foldOr_sound {α : Type} (F : α → TV) (S P : α → Prop) (l : List α)
    (hl : ∀ x, x ∈ l ↔ P x) (ih : ∀ x b, F x = some b → (b = true ↔ S x)) (b : Bool)
    (h : l.foldr (fun x acc => tvOr (F x) acc) (some false) = some b) :
    b = true ↔ ∃ x, P x ∧ S x := by
  cases b with
  | true =>
    obtain ⟨x, hx, hF⟩ := (foldOr_eq_true F l).1 h
    exact ⟨fun _ => ⟨x, (hl x).1 hx, (ih x true hF).1 rfl⟩, fun _ => rfl⟩
  | false =>
    have h' := (foldOr_eq_false F l).1 h
    constructor
    · intro h0; cases h0
    · rintro ⟨x, hP, hS⟩
      have := (ih x false (h' x ((hl x).2 hP))).2 hS
      cases this

/-! ### the quantifier domains -/

/-- the enumerated domain of a tree quantifier is exactly the declarative one -/
theorem domain_spec (w : World) (β : Env) (ty inVar : String) (ps : List Path)
    (h : domain w β ty inVar = some ps) (r : Path) :
    r ∈ ps ↔ ∃ p sub q t, β.get inVar = some (.path p) ∧ w.root.get p = some sub ∧
      sub.get q = some t ∧ t.sym = ty ∧ r = p ++ q := by
  unfold domain at h
  split at h
  · rename_i p hp
    cases hsub : w.root.get p with
    | none => simp [hsub] at h
    | some sub =>
      simp only [hsub, Option.map_some, Option.some.injEq] at h
      subst h
      simp only [List.mem_map, List.mem_filter, Prod.exists, C04.mem_paths_iff, beq_iff_eq]
      constructor
      · rintro ⟨q, t, ⟨hg, hs⟩, rfl⟩
        exact ⟨p, sub, q, t, hp, hsub, hg, hs, rfl⟩
      · rintro ⟨p', sub', q, t, hp', hsub', hg, hs, rfl⟩
        rw [hp] at hp'
        cases hp'
        rw [hsub] at hsub'
        cases hsub'
        exact ⟨q, t, ⟨hg, hs⟩, rfl⟩
  · cases h

theorem mem_treeInst (w : World) (β : Env) (v ty inVar : String) (ps : List Path)
    (h : domain w β ty inVar = some ps) (β' : Env) :
    β' ∈ ps.map (fun p => (v, Bind.path p) :: β) ↔ TreeInst w β v ty inVar β' := by
  simp only [List.mem_map, TreeInst]
  constructor
  · rintro ⟨r, hr, rfl⟩
    obtain ⟨p, sub, q, t, h1, h2, h3, h4, rfl⟩ := (domain_spec w β ty inVar ps h r).1 hr
    exact ⟨p, sub, q, t, h1, h2, h3, h4, rfl⟩
  · rintro ⟨p, sub, q, t, h1, h2, h3, h4, rfl⟩
    exact ⟨p ++ q, (domain_spec w β ty inVar ps h _).2 ⟨p, sub, q, t, h1, h2, h3, h4, rfl⟩, rfl⟩

theorem mem_matchInst (w : World) (β : Env) (v ty inVar : String) (ms : List MTree)
    (ps : List Path) (h : domain w β ty inVar = some ps) (β' : Env) :
    β' ∈ mexprInstances w β v ps ms ↔ MatchInst w β v ty inVar ms β' := by
  simp only [mexprInstances, List.mem_flatMap, MatchInst]
  constructor
  · rintro ⟨r, hr, hmem⟩
    obtain ⟨p, sub, q, t, h1, h2, h3, h4, rfl⟩ := (domain_spec w β ty inVar ps h r).1 hr
    have hg : w.root.get (p ++ q) = some t := by
      rw [C04.get_append, h2]; exact h3
    rw [hg] at hmem
    simp only [List.mem_filterMap, Option.map_eq_some_iff] at hmem
    obtain ⟨m, hm, bs, hbs, rfl⟩ := hmem
    exact ⟨p, sub, q, t, m, bs, h1, h2, h3, h4, hm, hbs, rfl⟩
  · rintro ⟨p, sub, q, t, m, bs, h1, h2, h3, h4, hm, hbs, rfl⟩
    refine ⟨p ++ q, (domain_spec w β ty inVar ps h _).2 ⟨p, sub, q, t, h1, h2, h3, h4, rfl⟩, ?_⟩
    have hg : w.root.get (p ++ q) = some t := by
      rw [C04.get_append, h2]; exact h3
    rw [hg]
    simp only [List.mem_filterMap, Option.map_eq_some_iff]
    exact ⟨m, hm, bs, hbs, rfl⟩

theorem mem_numInst (v : String) (β : Env) (bound : Nat) (β' : Env) :
    β' ∈ (List.range bound).map (fun n => (v, Bind.num n) :: β) ↔
      ∃ n, n < bound ∧ β' = (v, Bind.num n) :: β := by
  simp only [List.mem_map, List.mem_range]
  constructor
  · rintro ⟨n, hn, rfl⟩; exact ⟨n, hn, rfl⟩
  · rintro ⟨n, hn, rfl⟩; exact ⟨n, hn, rfl⟩

/-! ### soundness of the reference evaluator -/

mutual
theorem evalRef_sound_aux (w : World) : ∀ (β : Env) (f : Fm) (b : Bool),
    evalRef w β f = some b → (b = true ↔ Sat w β f)
  | β, .smt t, b, h => by
    simp only [evalRef] at h
    simp only [Sat, h, Option.some.injEq]
  | β, .pred name args, b, h => by
    simp only [evalRef] at h
    simp only [Sat, h, Option.some.injEq]
  | β, .count tv needle num, b, h => by
    simp only [evalRef] at h
    simp only [Sat, h, Option.some.injEq]
  | β, .neg f, b, h => by
    simp only [evalRef] at h
    have ih := evalRef_sound_aux w β f (!b) ((tvNot_eq _ _).1 h)
    simp only [Sat]
    cases b <;> simp_all
  | β, .conj fs, b, h => by
    simp only [evalRef] at h
    simp only [Sat]
    exact evalAll_sound_aux w β fs b h
  | β, .disj fs, b, h => by
    simp only [evalRef] at h
    simp only [Sat]
    exact evalAny_sound_aux w β fs b h
  | β, .all v ty inVar none f, b, h => by
    simp only [evalRef] at h
    simp only [Sat]
    split at h
    · cases h
    · rename_i ps hd
      exact foldAnd_sound (fun β' => evalRef w β' f) (fun β' => Sat w β' f) _ _
        (mem_treeInst w β v ty inVar ps hd) (fun β' b' h' => evalRef_sound_aux w β' f b' h') b h
  | β, .ex v ty inVar none f, b, h => by
    simp only [evalRef] at h
    simp only [Sat]
    split at h
    · cases h
    · rename_i ps hd
      exact foldOr_sound (fun β' => evalRef w β' f) (fun β' => Sat w β' f) _ _
        (mem_treeInst w β v ty inVar ps hd) (fun β' b' h' => evalRef_sound_aux w β' f b' h') b h
  | β, .all v ty inVar (some ms) f, b, h => by
    simp only [evalRef] at h
    simp only [Sat]
    split at h
    · cases h
    · rename_i ps hd
      exact foldAnd_sound (fun β' => evalRef w β' f) (fun β' => Sat w β' f) _ _
        (mem_matchInst w β v ty inVar ms ps hd) (fun β' b' h' => evalRef_sound_aux w β' f b' h') b h
  | β, .ex v ty inVar (some ms) f, b, h => by
    simp only [evalRef] at h
    simp only [Sat]
    split at h
    · cases h
    · rename_i ps hd
      exact foldOr_sound (fun β' => evalRef w β' f) (fun β' => Sat w β' f) _ _
        (mem_matchInst w β v ty inVar ms ps hd) (fun β' b' h' => evalRef_sound_aux w β' f b' h') b h
  | β, .allInt v f, b, h => by
    simp only [evalRef] at h
    simp only [Sat]
    split at h
    · rename_i hfold
      cases h
      have := foldAnd_sound (fun β' => evalRef w β' f) (fun β' => Sat w β' f) _ _
        (mem_numInst v β w.intBound) (fun β' b' h' => evalRef_sound_aux w β' f b' h') false hfold
      constructor
      · intro h0; cases h0
      · intro hall
        exact this.2 (fun β' ⟨n, _, hn⟩ => hn ▸ hall n)
    · cases h
  | β, .exInt v f, b, h => by
    simp only [evalRef] at h
    simp only [Sat]
    split at h
    · rename_i hfold
      cases h
      have := foldOr_sound (fun β' => evalRef w β' f) (fun β' => Sat w β' f) _ _
        (mem_numInst v β w.intBound) (fun β' b' h' => evalRef_sound_aux w β' f b' h') true hfold
      obtain ⟨β', ⟨n, _, rfl⟩, hS⟩ := this.1 rfl
      exact ⟨fun _ => ⟨n, hS⟩, fun _ => rfl⟩
    · cases h
theorem evalAll_sound_aux (w : World) : ∀ (β : Env) (fs : List Fm) (b : Bool),
    evalAll w β fs = some b → (b = true ↔ SatAll w β fs)
  | β, [], b, h => by
    simp only [evalAll, Option.some.injEq] at h
    simp [SatAll, ← h]
  | β, f :: fs, b, h => by
    simp only [evalAll] at h
    simp only [SatAll]
    cases b with
    | true =>
      obtain ⟨h1, h2⟩ := (tvAnd_eq_true _ _).1 h
      exact ⟨fun _ => ⟨(evalRef_sound_aux w β f true h1).1 rfl,
        (evalAll_sound_aux w β fs true h2).1 rfl⟩, fun _ => rfl⟩
    | false =>
      constructor
      · intro h0; cases h0
      · rintro ⟨s1, s2⟩
        rcases (tvAnd_eq_false _ _).1 h with h1 | h2
        · exact (evalRef_sound_aux w β f false h1).2 s1
        · exact (evalAll_sound_aux w β fs false h2).2 s2
theorem evalAny_sound_aux (w : World) : ∀ (β : Env) (fs : List Fm) (b : Bool),
    evalAny w β fs = some b → (b = true ↔ SatAny w β fs)
  | β, [], b, h => by
    simp only [evalAny, Option.some.injEq] at h
    simp [SatAny, ← h]
  | β, f :: fs, b, h => by
    simp only [evalAny] at h
    simp only [SatAny]
    cases b with
    | true =>
      refine ⟨fun _ => ?_, fun _ => rfl⟩
      rcases (tvOr_eq_true _ _).1 h with h1 | h2
      · exact Or.inl ((evalRef_sound_aux w β f true h1).1 rfl)
      · exact Or.inr ((evalAny_sound_aux w β fs true h2).1 rfl)
    | false =>
      obtain ⟨h1, h2⟩ := (tvOr_eq_false _ _).1 h
      constructor
      · intro h0; cases h0
      · rintro (s1 | s2)
        · exact (evalRef_sound_aux w β f false h1).2 s1
        · exact (evalAny_sound_aux w β fs false h2).2 s2
end

/-- every atom of the formula has a defined value in every environment reached during evaluation
is NOT assumed: the theorem speaks about definite answers only -/
theorem evalRef_sound' (w : World) : ∀ (β : Env) (f : Fm) (b : Bool),
    evalRef w β f = some b → (b = true ↔ Sat w β f) := by
  exact evalRef_sound_aux w

end IslaVerif.Sem

