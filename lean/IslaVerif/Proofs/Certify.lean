import IslaVerif.Model.Certify
import IslaVerif.Proofs.Sem
import IslaVerif.Proofs.C10
namespace IslaVerif.Sem
open IslaVerif

theorem certify_sound' (w : World) (startSym const : String) (f : Fm) (h : certify w startSym const f = true) :
    w.root.valid w.g = true ∧ w.root.closed = true ∧ w.root.sym = startSym ∧
    C10.InLang w.g startSym (w.root.yieldC w.g) ∧ Sat w [(const, Bind.path [])] f := by
  simp only [certify, certFlags, Bool.and_eq_true, beq_iff_eq] at h
  obtain ⟨⟨⟨hv, hc⟩, hr⟩, he⟩ := h
  exact ⟨hv, hc, hr, ⟨w.root, hv, hc, hr, rfl⟩, (evalRef_sound' w _ f true he).1 rfl⟩

end IslaVerif.Sem
