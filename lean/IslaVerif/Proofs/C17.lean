import IslaVerif.Model.Serial
/- lemmas behind C17 (tree serialization and the object-state machine) -/
namespace IslaVerif.C17
open IslaVerif IslaVerif.Serial IslaVerif.Serial.CTree

/-! ### helpers -/

def clearF (f : Fields) : Fields := { f with kPaths := false, concreteKPaths := false }

theorem decFields_enc (s : String) (c : JVal) (i : Nat) (f : Fields) :
    decFields [("_DerivationTree__value", .str s),
        ("_DerivationTree__children", c),
        ("_id", .num i),
        ("_DerivationTree__len", jOptNat f.len),
        ("_DerivationTree__hash", jOptInt f.hash),
        ("_DerivationTree__structural_hash", jOptInt f.shash),
        ("_DerivationTree__is_open", jOptBool f.isOpen)] = some (s, i, clearF f) := by
  obtain ⟨l, h, sh, o, kp, ckp⟩ := f
  cases l <;> cases h <;> cases sh <;> cases o <;>
    simp [decFields, lookup, dOptNat, dOptInt, dOptBool, jOptNat, jOptInt, jOptBool, clearF]

theorem lookup_children_enc (s : String) (c : JVal) (i : Nat) (f : Fields) :
    lookup "_DerivationTree__children" [("_DerivationTree__value", .str s),
        ("_DerivationTree__children", c),
        ("_id", .num i),
        ("_DerivationTree__len", jOptNat f.len),
        ("_DerivationTree__hash", jOptInt f.hash),
        ("_DerivationTree__structural_hash", jOptInt f.shash),
        ("_DerivationTree__is_open", jOptBool f.isOpen)] = some c := by
  simp [lookup]

mutual
theorem decodeF_encode : ∀ (t : CTree) (fuel : Nat), depth t ≤ fuel →
    decodeF fuel (encode t) = some (clearK t)
  | .openLeaf i s f, fuel, h => by
    cases fuel with
    | zero => simp [depth] at h
    | succ n =>
      simp only [encode, encFields, decodeF, decFields_enc, lookup_children_enc, clearK, clearF]
  | .node i s ks f, fuel, h => by
    cases fuel with
    | zero => simp [depth] at h
    | succ n =>
      have hk : depthL ks ≤ n := by simp [depth] at h; omega
      simp only [encode, encFields, decodeF, decFields_enc, lookup_children_enc,
        decodeFL_encodeL ks n hk, clearK, clearF]
theorem decodeFL_encodeL : ∀ (ks : List CTree) (fuel : Nat), depthL ks ≤ fuel →
    decodeFL fuel (encodeL ks) = some (clearKL ks)
  | [], fuel, _ => by simp [encodeL, decodeFL, clearKL]
  | k :: ks, fuel, h => by
    have h1 : depth k ≤ fuel := by simp [depthL] at h; omega
    have h2 : depthL ks ≤ fuel := by simp [depthL] at h; omega
    simp only [encodeL, decodeFL, decodeF_encode k fuel h1, decodeFL_encodeL ks fuel h2, clearKL]
end

mutual
theorem depth_le_jdepth : ∀ t : CTree, depth t ≤ jdepth (encode t)
  | .openLeaf i s f => by simp [depth, encode, encFields, jdepth]
  | .node i s ks f => by
    have := depthL_le_jdepthL ks
    simp only [depth, encode, encFields, jdepth, jdepthKV]
    omega
theorem depthL_le_jdepthL : ∀ ks : List CTree, depthL ks ≤ jdepthL (encodeL ks)
  | [] => by simp [depthL, encodeL, jdepthL]
  | k :: ks => by
    have h1 := depth_le_jdepth k
    have h2 := depthL_le_jdepthL ks
    simp only [depthL, encodeL, jdepthL]
    omega
end

/-- decoding an encoded tree gives back the same tree (structure, identities, cached fields) with
the two k-path caches emptied -/
theorem decode_encode' (t : CTree) : decode (encode t) = some (clearK t) :=
  decodeF_encode t _ (depth_le_jdepth t)

mutual
theorem erase_clearK_aux : ∀ t : CTree, erase (clearK t) = erase t
  | .openLeaf i s f => by simp [clearK, erase]
  | .node i s ks f => by simp [clearK, erase, eraseL_clearKL ks]
theorem eraseL_clearKL : ∀ ks : List CTree, eraseL (clearKL ks) = eraseL ks
  | [] => by simp [clearKL, eraseL]
  | k :: ks => by simp [clearKL, eraseL, erase_clearK_aux k, eraseL_clearKL ks]
end

/-- emptying the k-path caches changes neither structure nor identities nor labels -/
theorem erase_clearK' (t : CTree) : erase (clearK t) = erase t := erase_clearK_aux t

mutual
theorem encode_clearK_aux : ∀ t : CTree, encode (clearK t) = encode t
  | .openLeaf i s f => by simp [clearK, encode, encFields]
  | .node i s ks f => by simp [clearK, encode, encFields, encodeL_clearKL ks]
theorem encodeL_clearKL : ∀ ks : List CTree, encodeL (clearKL ks) = encodeL ks
  | [] => by simp [clearKL, encodeL]
  | k :: ks => by simp [clearKL, encodeL, encode_clearK_aux k, encodeL_clearKL ks]
end

/-- the serialized form does not depend on whether k-paths were computed anywhere in the tree -/
theorem encode_clearK' (t : CTree) : encode (clearK t) = encode t := encode_clearK_aux t

theorem updateAt_none_get (g : Fields → Fields) : ∀ (p : List Nat) (t : CTree),
    updateAt t p g = none → get t p = none
  | [], t, h => by simp [updateAt] at h
  | j :: p, .openLeaf i s f, _ => by simp [CTree.get]
  | j :: p, .node i s ks f, h => by
    simp only [updateAt] at h
    simp only [CTree.get]
    cases hk : ks[j]? with
    | none => simp
    | some k =>
      simp only [hk] at h ⊢
      cases hu : updateAt k p g with
      | none => exact updateAt_none_get g p k hu
      | some k' => simp [hu] at h

/-- every operation succeeds in every state, unless it addresses a path that does not exist -/
theorem step_total' (t : CTree) (op : Op) :
    (∀ cls, (step t op).2 ≠ .error cls) ∨
    (∃ p, (op = .kPaths p ∨ op = .concreteKPaths p) ∧ t.get p = none) := by
  cases op with
  | kPaths p =>
    cases hu : updateAt t p (fun f => { f with kPaths := true }) with
    | none => exact .inr ⟨p, .inl rfl, updateAt_none_get _ p t hu⟩
    | some t' => left; intro cls; simp [step, hu]
  | concreteKPaths p =>
    cases hu : updateAt t p (fun f => { f with concreteKPaths := true }) with
    | none => exact .inr ⟨p, .inr rfl, updateAt_none_get _ p t hu⟩
    | some t' => left; intro cls; simp [step, hu]
  | toJson => left; intro cls; simp [step]
  | pickleRoundTrip => left; intro cls; simp [step, decode_encode']
  | observe l h sh o => left; intro cls; simp [step]

/-- serializing never changes the live object -/
theorem toJson_pure' (t : CTree) : (step t .toJson).1 = t ∧ (step t .toJson).2 = .json (encode t) := by
  simp [step]

theorem pickle_pure' (t : CTree) :
    (step t .pickleRoundTrip).1 = t ∧ (step t .pickleRoundTrip).2 = .tree (clearK t) := by
  simp [step, decode_encode']

theorem erase_setFields (t : CTree) (f : Fields) : erase (t.setFields f) = erase t := by
  cases t <;> simp [setFields, erase]

theorem eraseL_set : ∀ (ks : List CTree) (j : Nat) (k' : CTree),
    eraseL (ks.set j k') = (eraseL ks).set j (erase k')
  | [], j, k' => by simp [eraseL]
  | k :: ks, 0, k' => by simp [eraseL]
  | k :: ks, j + 1, k' => by simp [eraseL, eraseL_set ks j k']

theorem eraseL_set_same : ∀ (ks : List CTree) (j : Nat) (k : CTree), ks[j]? = some k →
    (eraseL ks).set j (erase k) = eraseL ks
  | [], j, k, h => by simp at h
  | k0 :: ks, 0, k, h => by simp at h; simp [eraseL, h]
  | k0 :: ks, j + 1, k, h => by
    simp at h; simp [eraseL, eraseL_set_same ks j k h]

theorem updateAt_erase (g : Fields → Fields) : ∀ (p : List Nat) (t t' : CTree),
    updateAt t p g = some t' → erase t' = erase t
  | [], t, t', h => by
    simp [updateAt] at h; subst h; exact erase_setFields _ _
  | j :: p, .openLeaf i s f, t', h => by simp [updateAt] at h
  | j :: p, .node i s ks f, t', h => by
    simp only [updateAt] at h
    cases hk : ks[j]? with
    | none => simp [hk] at h
    | some k =>
      simp only [hk] at h
      cases hu : updateAt k p g with
      | none => simp [hu] at h
      | some k' =>
        simp [hu] at h; subst h
        have := updateAt_erase g p k k' hu
        simp [erase, eraseL_set, this, eraseL_set_same ks j k hk]

theorem step_erase (t : CTree) (op : Op) : erase (step t op).1 = erase t := by
  cases op with
  | kPaths p =>
    cases hu : updateAt t p (fun f => { f with kPaths := true }) with
    | none => simp [step, hu]
    | some t' => simp [step, hu, updateAt_erase _ p t t' hu]
  | concreteKPaths p =>
    cases hu : updateAt t p (fun f => { f with concreteKPaths := true }) with
    | none => simp [step, hu]
    | some t' => simp [step, hu, updateAt_erase _ p t t' hu]
  | toJson => simp [step]
  | pickleRoundTrip => simp [step, decode_encode']
  | observe l h sh o => simp [step, erase_setFields]

/-- no operation sequence changes the structure, the node identities or the string of the tree -/
theorem run_erase' (t : CTree) (ops : List Op) : erase (run t ops).1 = erase t := by
  induction ops generalizing t with
  | nil => simp [run]
  | cons op ops ih =>
    simp only [run]
    rw [ih, step_erase]

/-- after any history, unpickling a pickle of the live object yields its structure and identities -/
theorem pickle_after_history' (t : CTree) (ops : List Op) :
    ∃ t', decode (encode (run t ops).1) = some t' ∧ erase t' = erase t :=
  ⟨_, decode_encode' _, by rw [erase_clearK', run_erase']⟩

end IslaVerif.C17
