import IslaVerif.Model.Formula
/-
Semantics (`Sat`) of the formula AST over arbitrary interpretations, and the lemmas behind C09.
-/
namespace IslaVerif.C09
open IslaVerif IslaVerif.F

/-! ### Specification: satisfaction over an arbitrary interpretation

`Env` abstracts (closed derivation tree, variable assignment).  Atoms are arbitrary predicates of
the environment; a tree quantifier `q` ranges over an arbitrary finite list of extended
environments (possibly empty); numeric quantifiers range over all of ℕ.  The theorems therefore
hold for every grammar, every closed tree and every assignment at once. -/
structure Interp (Env : Type) where
  atom : Nat → Env → Prop
  smt : Nat → Env → Prop
  dom : Nat → Env → List Env
  bindInt : Nat → Nat → Env → Env

mutual
def Sat {Env} (I : Interp Env) : Env → F → Prop
  | ρ, .atom a => I.atom a ρ
  | ρ, .smt s true => I.smt s ρ
  | ρ, .smt s false => ¬ I.smt s ρ
  | _, .tt => True
  | _, .ff => False
  | ρ, .neg f => ¬ Sat I ρ f
  | ρ, .conj fs => SatAll I ρ fs
  | ρ, .disj fs => SatAny I ρ fs
  | ρ, .all q f => ∀ ρ' ∈ I.dom q ρ, Sat I ρ' f
  | ρ, .ex q f => ∃ ρ' ∈ I.dom q ρ, Sat I ρ' f
  | ρ, .allInt v f => ∀ n : Nat, Sat I (I.bindInt v n ρ) f
  | ρ, .exInt v f => ∃ n : Nat, Sat I (I.bindInt v n ρ) f
def SatAll {Env} (I : Interp Env) : Env → List F → Prop
  | _, [] => True
  | ρ, f :: fs => Sat I ρ f ∧ SatAll I ρ fs
def SatAny {Env} (I : Interp Env) : Env → List F → Prop
  | _, [] => False
  | ρ, f :: fs => Sat I ρ f ∨ SatAny I ρ fs
end

mutual
/-- well-formed: every conjunction / disjunction has at least one argument
(Python's constructors demand at least two) -/
def WF : F → Bool
  | .neg f => WF f
  | .conj fs => !fs.isEmpty && WFL fs
  | .disj fs => !fs.isEmpty && WFL fs
  | .all _ f => WF f
  | .ex _ f => WF f
  | .allInt _ f => WF f
  | .exInt _ f => WF f
  | _ => true
def WFL : List F → Bool
  | [] => true
  | f :: fs => WF f && WFL fs
end

mutual
/-- negations only in front of predicate atoms, everywhere (also below quantifiers) -/
def NegOnAtoms : F → Bool
  | .neg (.atom _) => true
  | .neg _ => false
  | .conj fs => NegOnAtomsL fs
  | .disj fs => NegOnAtomsL fs
  | .all _ f => NegOnAtoms f
  | .ex _ f => NegOnAtoms f
  | .allInt _ f => NegOnAtoms f
  | .exInt _ f => NegOnAtoms f
  | _ => true
def NegOnAtomsL : List F → Bool
  | [] => true
  | f :: fs => NegOnAtoms f && NegOnAtomsL fs
end

/-! ### Lemmas -/

/-! helper lemmas -/

theorem satAll_iff {Env} (I : Interp Env) (ρ : Env) : ∀ l : List F, SatAll I ρ l ↔ ∀ f ∈ l, Sat I ρ f
  | [] => by simp [SatAll]
  | f :: fs => by simp [SatAll, satAll_iff I ρ fs]

theorem satAny_iff {Env} (I : Interp Env) (ρ : Env) : ∀ l : List F, SatAny I ρ l ↔ ∃ f ∈ l, Sat I ρ f
  | [] => by simp [SatAny]
  | f :: fs => by simp [SatAny, satAny_iff I ρ fs]

theorem satAll_append {Env} (I : Interp Env) (ρ : Env) (l₁ l₂ : List F) :
    SatAll I ρ (l₁ ++ l₂) ↔ SatAll I ρ l₁ ∧ SatAll I ρ l₂ := by
  simp only [satAll_iff, List.mem_append]
  constructor
  · intro h; exact ⟨fun f hf => h f (Or.inl hf), fun f hf => h f (Or.inr hf)⟩
  · rintro ⟨h1, h2⟩ f (hf | hf); exact h1 f hf; exact h2 f hf

theorem satAny_append {Env} (I : Interp Env) (ρ : Env) (l₁ l₂ : List F) :
    SatAny I ρ (l₁ ++ l₂) ↔ SatAny I ρ l₁ ∨ SatAny I ρ l₂ := by
  simp only [satAny_iff, List.mem_append]
  constructor
  · rintro ⟨f, hf | hf, h⟩; exact Or.inl ⟨f, hf, h⟩; exact Or.inr ⟨f, hf, h⟩
  · rintro (⟨f, hf, h⟩ | ⟨f, hf, h⟩); exact ⟨f, Or.inl hf, h⟩; exact ⟨f, Or.inr hf, h⟩

mutual
theorem beq_eq : ∀ (a b : F), beq a b = true → a = b
  | .atom a, b, h => by cases b <;> simp_all [beq]
  | .smt s p, b, h => by cases b <;> simp_all [beq]
  | .tt, b, h => by cases b <;> simp_all [beq]
  | .ff, b, h => by cases b <;> simp_all [beq]
  | .neg f, b, h => by
    cases b with
    | neg g => simp only [beq] at h; rw [beq_eq f g h]
    | _ => simp [beq] at h
  | .conj fs, b, h => by
    cases b with
    | conj gs => simp only [beq] at h; rw [beqL_eq fs gs h]
    | _ => simp [beq] at h
  | .disj fs, b, h => by
    cases b with
    | disj gs => simp only [beq] at h; rw [beqL_eq fs gs h]
    | _ => simp [beq] at h
  | .all q f, b, h => by
    cases b with
    | all q' g => simp only [beq, Bool.and_eq_true, beq_iff_eq] at h; rw [beq_eq f g h.2, h.1]
    | _ => simp [beq] at h
  | .ex q f, b, h => by
    cases b with
    | ex q' g => simp only [beq, Bool.and_eq_true, beq_iff_eq] at h; rw [beq_eq f g h.2, h.1]
    | _ => simp [beq] at h
  | .allInt q f, b, h => by
    cases b with
    | allInt q' g => simp only [beq, Bool.and_eq_true, beq_iff_eq] at h; rw [beq_eq f g h.2, h.1]
    | _ => simp [beq] at h
  | .exInt q f, b, h => by
    cases b with
    | exInt q' g => simp only [beq, Bool.and_eq_true, beq_iff_eq] at h; rw [beq_eq f g h.2, h.1]
    | _ => simp [beq] at h
theorem beqL_eq : ∀ (as bs : List F), beqL as bs = true → as = bs
  | [], bs, h => by cases bs <;> simp_all [beqL]
  | f :: fs, bs, h => by
    cases bs with
    | nil => simp [beqL] at h
    | cons g gs => simp only [beqL, Bool.and_eq_true] at h; rw [beq_eq f g h.1, beqL_eq fs gs h.2]
end

theorem satAll_unconj {Env} (I : Interp Env) (ρ : Env) (g : F) :
    SatAll I ρ (match g with | .conj gs => gs | g => [g]) ↔ Sat I ρ g := by
  cases g <;> simp [Sat, SatAll]

theorem satAny_undisj {Env} (I : Interp Env) (ρ : Env) (g : F) :
    SatAny I ρ (match g with | .disj gs => gs | g => [g]) ↔ Sat I ρ g := by
  cases g <;> simp [Sat, SatAny]

mutual
theorem sat_flat {Env} (I : Interp Env) : ∀ (ρ : Env) (f : F), Sat I ρ (flat f) ↔ Sat I ρ f
  | ρ, .atom a => by simp [flat]
  | ρ, .smt s p => by simp [flat]
  | ρ, .tt => by simp [flat]
  | ρ, .ff => by simp [flat]
  | ρ, .neg f => by simp only [flat, Sat, sat_flat I ρ f]
  | ρ, .conj fs => by simp only [flat, Sat]; exact sat_flatConjL I ρ fs
  | ρ, .disj fs => by simp only [flat, Sat]; exact sat_flatDisjL I ρ fs
  | ρ, .all q f => by simp only [flat, Sat, sat_flat I _ f]
  | ρ, .ex q f => by simp only [flat, Sat, sat_flat I _ f]
  | ρ, .allInt q f => by simp only [flat, Sat, sat_flat I _ f]
  | ρ, .exInt q f => by simp only [flat, Sat, sat_flat I _ f]
theorem sat_flatConjL {Env} (I : Interp Env) : ∀ (ρ : Env) (fs : List F),
    SatAll I ρ (flatConjL fs) ↔ SatAll I ρ fs
  | ρ, [] => by simp [flatConjL]
  | ρ, f :: fs => by
    simp only [flatConjL, satAll_append, SatAll, sat_flatConjL I ρ fs]
    exact and_congr ((satAll_unconj I ρ (flat f)).trans (sat_flat I ρ f)) Iff.rfl
theorem sat_flatDisjL {Env} (I : Interp Env) : ∀ (ρ : Env) (fs : List F),
    SatAny I ρ (flatDisjL fs) ↔ SatAny I ρ fs
  | ρ, [] => by simp [flatDisjL]
  | ρ, f :: fs => by
    simp only [flatDisjL, satAny_append, SatAny, sat_flatDisjL I ρ fs]
    exact or_congr ((satAny_undisj I ρ (flat f)).trans (sat_flat I ρ f)) Iff.rfl
end

theorem sat_feq'' {Env} (I : Interp Env) (ρ : Env) (a b : F) (h : feq a b = true) :
    Sat I ρ a ↔ Sat I ρ b := by
  rw [← sat_flat I ρ a, ← sat_flat I ρ b, beq_eq _ _ h]

mutual
theorem sat_splitConj'' {Env} (I : Interp Env) : ∀ (ρ : Env) (f : F),
    SatAll I ρ (splitConj f) ↔ Sat I ρ f
  | ρ, .conj fs => by simp only [splitConj, Sat]; exact sat_splitConjL I ρ fs
  | ρ, .atom a => by simp [splitConj, SatAll]
  | ρ, .smt s p => by simp [splitConj, SatAll]
  | ρ, .tt => by simp [splitConj, SatAll]
  | ρ, .ff => by simp [splitConj, SatAll]
  | ρ, .neg f => by simp [splitConj, SatAll]
  | ρ, .disj fs => by simp [splitConj, SatAll]
  | ρ, .all q f => by simp [splitConj, SatAll]
  | ρ, .ex q f => by simp [splitConj, SatAll]
  | ρ, .allInt q f => by simp [splitConj, SatAll]
  | ρ, .exInt q f => by simp [splitConj, SatAll]
theorem sat_splitConjL {Env} (I : Interp Env) : ∀ (ρ : Env) (fs : List F),
    SatAll I ρ (splitConjL fs) ↔ SatAll I ρ fs
  | ρ, [] => by simp [splitConjL]
  | ρ, f :: fs => by
    simp only [splitConjL, satAll_append, SatAll, sat_splitConj'' I ρ f, sat_splitConjL I ρ fs]
end

mutual
theorem sat_splitDisj'' {Env} (I : Interp Env) : ∀ (ρ : Env) (f : F),
    SatAny I ρ (splitDisj f) ↔ Sat I ρ f
  | ρ, .disj fs => by simp only [splitDisj, Sat]; exact sat_splitDisjL I ρ fs
  | ρ, .atom a => by simp [splitDisj, SatAny]
  | ρ, .smt s p => by simp [splitDisj, SatAny]
  | ρ, .tt => by simp [splitDisj, SatAny]
  | ρ, .ff => by simp [splitDisj, SatAny]
  | ρ, .neg f => by simp [splitDisj, SatAny]
  | ρ, .conj fs => by simp [splitDisj, SatAny]
  | ρ, .all q f => by simp [splitDisj, SatAny]
  | ρ, .ex q f => by simp [splitDisj, SatAny]
  | ρ, .allInt q f => by simp [splitDisj, SatAny]
  | ρ, .exInt q f => by simp [splitDisj, SatAny]
theorem sat_splitDisjL {Env} (I : Interp Env) : ∀ (ρ : Env) (fs : List F),
    SatAny I ρ (splitDisjL fs) ↔ SatAny I ρ fs
  | ρ, [] => by simp [splitDisjL]
  | ρ, f :: fs => by
    simp only [splitDisjL, satAny_append, SatAny, sat_splitDisj'' I ρ f, sat_splitDisjL I ρ fs]
end

theorem sat_isNegOf {Env} (I : Interp Env) (ρ : Env) (a b : F) (h : isNegOf a b = true) :
    Sat I ρ a ↔ ¬ Sat I ρ b := by
  unfold isNegOf at h
  split at h
  · simp only [Sat, sat_feq'' I ρ _ _ h]
  · simp at h

theorem sat_andF'' {Env} (I : Interp Env) (ρ : Env) (a b : F) :
    Sat I ρ (andF a b) ↔ Sat I ρ a ∧ Sat I ρ b := by
  unfold andF
  split
  · next h => have := sat_feq'' I ρ a b h; constructor; exact fun h => ⟨h, this.1 h⟩; exact fun h => h.1
  · split
    · simp [Sat]
    · simp [Sat]
    · simp [Sat]
    · simp [Sat]
    · split
      · next h => have := sat_isNegOf I ρ a b h; simp only [Sat, false_iff]; rintro ⟨h1, h2⟩; exact this.1 h1 h2
      · split
        · next h => have := sat_isNegOf I ρ b a h; simp only [Sat, false_iff]; rintro ⟨h1, h2⟩; exact this.1 h2 h1
        · simp [Sat, SatAll]

theorem sat_orF'' {Env} (I : Interp Env) (ρ : Env) (a b : F) :
    Sat I ρ (orF a b) ↔ Sat I ρ a ∨ Sat I ρ b := by
  unfold orF
  split
  · next h => have := sat_feq'' I ρ a b h; constructor; exact fun h => Or.inl h; exact fun h => h.elim id this.2
  · split
    · simp [Sat]
    · simp [Sat]
    · simp [Sat]
    · simp [Sat]
    · split
      · next h =>
        have := sat_isNegOf I ρ a b h; simp only [Sat, true_iff]; rw [this]; exact (Classical.em _).symm
      · split
        · next h =>
          have := sat_isNegOf I ρ b a h; simp only [Sat, true_iff]; rw [this]; exact Classical.em _
        · simp [Sat, SatAny]

theorem sat_foldl_andF {Env} (I : Interp Env) (ρ : Env) : ∀ (xs : List F) (x : F),
    Sat I ρ (xs.foldl andF x) ↔ Sat I ρ x ∧ SatAll I ρ xs
  | [], x => by simp [SatAll]
  | y :: ys, x => by
    simp only [List.foldl_cons, sat_foldl_andF I ρ ys, sat_andF'', SatAll, and_assoc]

theorem sat_foldl_orF {Env} (I : Interp Env) (ρ : Env) : ∀ (xs : List F) (x : F),
    Sat I ρ (xs.foldl orF x) ↔ Sat I ρ x ∨ SatAny I ρ xs
  | [], x => by simp [SatAny]
  | y :: ys, x => by
    simp only [List.foldl_cons, sat_foldl_orF I ρ ys, sat_orF'', SatAny, or_assoc]

theorem sat_reduce1_andF {Env} (I : Interp Env) (ρ : Env) (l : List F) (g : F)
    (h : reduce1 andF l = some g) : Sat I ρ g ↔ SatAll I ρ l := by
  cases l with
  | nil => simp [reduce1] at h
  | cons x xs =>
    simp only [reduce1, Option.some.injEq] at h; subst h; simp only [sat_foldl_andF, SatAll]

theorem sat_reduce1_orF {Env} (I : Interp Env) (ρ : Env) (l : List F) (g : F)
    (h : reduce1 orF l = some g) : Sat I ρ g ↔ SatAny I ρ l := by
  cases l with
  | nil => simp [reduce1] at h
  | cons x xs =>
    simp only [reduce1, Option.some.injEq] at h; subst h; simp only [sat_foldl_orF, SatAny]

theorem reduce1_some (op : F → F → F) (l : List F) (h : l ≠ []) : ∃ g, reduce1 op l = some g := by
  cases l with
  | nil => exact absurd rfl h
  | cons x xs => exact ⟨_, rfl⟩

theorem not_all_mem {Env} (d : List Env) (P Q : Env → Prop) (h : ∀ x, Q x ↔ ¬ P x) :
    (∃ x ∈ d, Q x) ↔ ¬ ∀ x ∈ d, P x := by
  constructor
  · rintro ⟨x, h1, h2⟩ hc; exact (h x).1 h2 (hc x h1)
  · intro hc; apply Classical.byContradiction; intro hn
    apply hc; intro x h1; apply Classical.byContradiction; intro h2
    exact hn ⟨x, h1, (h x).2 h2⟩

theorem not_ex_mem {Env} (d : List Env) (P Q : Env → Prop) (h : ∀ x, Q x ↔ ¬ P x) :
    (∀ x ∈ d, Q x) ↔ ¬ ∃ x ∈ d, P x := by
  constructor
  · rintro hc ⟨x, h1, h2⟩; exact (h x).1 (hc x h1) h2
  · intro hc x h1; exact (h x).2 (fun h2 => hc ⟨x, h1, h2⟩)

theorem not_all_nat (P Q : Nat → Prop) (h : ∀ x, Q x ↔ ¬ P x) :
    (∃ x, Q x) ↔ ¬ ∀ x, P x := by
  constructor
  · rintro ⟨x, h2⟩ hc; exact (h x).1 h2 (hc x)
  · intro hc; apply Classical.byContradiction; intro hn
    apply hc; intro x; apply Classical.byContradiction; intro h2
    exact hn ⟨x, (h x).2 h2⟩

theorem not_ex_nat (P Q : Nat → Prop) (h : ∀ x, Q x ↔ ¬ P x) :
    (∀ x, Q x) ↔ ¬ ∃ x, P x := by
  constructor
  · rintro hc ⟨x, h2⟩; exact (h x).1 (hc x) h2
  · intro hc x; exact (h x).2 (fun h2 => hc ⟨x, h2⟩)

mutual
theorem sat_negF'' {Env} (I : Interp Env) : ∀ (ρ : Env) (f g : F), negF f = some g →
    (Sat I ρ g ↔ ¬ Sat I ρ f)
  | ρ, .atom a, g, h => by simp only [negF, Option.some.injEq] at h; subst h; simp [Sat]
  | ρ, .smt s p, g, h => by
    simp only [negF, Option.some.injEq] at h; subst h; cases p <;> simp [Sat]
  | ρ, .tt, g, h => by simp only [negF, Option.some.injEq] at h; subst h; simp [Sat]
  | ρ, .ff, g, h => by simp only [negF, Option.some.injEq] at h; subst h; simp [Sat]
  | ρ, .neg f, g, h => by simp only [negF, Option.some.injEq] at h; subst h; simp [Sat]
  | ρ, .conj fs, g, h => by
    simp only [negF, Option.bind_eq_some_iff] at h
    obtain ⟨gs, h1, h2⟩ := h
    rw [sat_reduce1_orF I ρ _ _ h2, Sat]; exact (sat_negL I ρ fs gs h1).1
  | ρ, .disj fs, g, h => by
    simp only [negF, Option.bind_eq_some_iff] at h
    obtain ⟨gs, h1, h2⟩ := h
    rw [sat_reduce1_andF I ρ _ _ h2, Sat]; exact (sat_negL I ρ fs gs h1).2
  | ρ, .all q f, g, h => by
    simp only [negF, Option.map_eq_some_iff] at h
    obtain ⟨g', h1, rfl⟩ := h
    simp only [Sat]
    exact not_all_mem _ _ _ (fun ρ' => sat_negF'' I ρ' f g' h1)
  | ρ, .ex q f, g, h => by
    simp only [negF, Option.map_eq_some_iff] at h
    obtain ⟨g', h1, rfl⟩ := h
    simp only [Sat]
    exact not_ex_mem _ _ _ (fun ρ' => sat_negF'' I ρ' f g' h1)
  | ρ, .allInt v f, g, h => by
    simp only [negF, Option.map_eq_some_iff] at h
    obtain ⟨g', h1, rfl⟩ := h
    simp only [Sat]
    exact not_all_nat _ _ (fun n => sat_negF'' I _ f g' h1)
  | ρ, .exInt v f, g, h => by
    simp only [negF, Option.map_eq_some_iff] at h
    obtain ⟨g', h1, rfl⟩ := h
    simp only [Sat]
    exact not_ex_nat _ _ (fun n => sat_negF'' I _ f g' h1)
theorem sat_negL {Env} (I : Interp Env) : ∀ (ρ : Env) (fs gs : List F), negL fs = some gs →
    (SatAny I ρ gs ↔ ¬ SatAll I ρ fs) ∧ (SatAll I ρ gs ↔ ¬ SatAny I ρ fs)
  | ρ, [], gs, h => by simp only [negL, Option.some.injEq] at h; subst h; simp [SatAll, SatAny]
  | ρ, f :: fs, gs, h => by
    simp only [negL] at h
    split at h
    · next g gs' h1 h2 =>
      simp only [Option.some.injEq] at h; subst h
      have a := sat_negF'' I ρ f g h1
      have b := sat_negL I ρ fs gs' h2
      simp only [SatAny, SatAll, a, b.1, b.2]
      exact ⟨Classical.not_and_iff_not_or_not.symm, not_or.symm⟩
    · simp at h
end

mutual
theorem negF_total'' : ∀ (f : F), WF f = true → ∃ g, negF f = some g
  | .atom a, _ => ⟨_, rfl⟩
  | .smt s p, _ => ⟨_, rfl⟩
  | .tt, _ => ⟨_, rfl⟩
  | .ff, _ => ⟨_, rfl⟩
  | .neg f, _ => ⟨_, rfl⟩
  | .conj fs, h => by
    simp only [WF, Bool.and_eq_true, Bool.not_eq_true', List.isEmpty_eq_false_iff] at h
    obtain ⟨gs, h1, h2⟩ := negL_total fs h.2
    have : gs ≠ [] := by intro hc; subst hc; cases fs <;> simp_all
    obtain ⟨g, hg⟩ := reduce1_some orF gs this
    exact ⟨g, by simp [negF, h1, hg]⟩
  | .disj fs, h => by
    simp only [WF, Bool.and_eq_true, Bool.not_eq_true', List.isEmpty_eq_false_iff] at h
    obtain ⟨gs, h1, h2⟩ := negL_total fs h.2
    have : gs ≠ [] := by intro hc; subst hc; cases fs <;> simp_all
    obtain ⟨g, hg⟩ := reduce1_some andF gs this
    exact ⟨g, by simp [negF, h1, hg]⟩
  | .all q f, h => by
    simp only [WF] at h; obtain ⟨g, hg⟩ := negF_total'' f h; exact ⟨.ex q g, by simp [negF, hg]⟩
  | .ex q f, h => by
    simp only [WF] at h; obtain ⟨g, hg⟩ := negF_total'' f h; exact ⟨.all q g, by simp [negF, hg]⟩
  | .allInt q f, h => by
    simp only [WF] at h; obtain ⟨g, hg⟩ := negF_total'' f h; exact ⟨.exInt q g, by simp [negF, hg]⟩
  | .exInt q f, h => by
    simp only [WF] at h; obtain ⟨g, hg⟩ := negF_total'' f h; exact ⟨.allInt q g, by simp [negF, hg]⟩
theorem negL_total : ∀ (fs : List F), WFL fs = true → ∃ gs, negL fs = some gs ∧ gs.length = fs.length
  | [], _ => ⟨[], rfl, rfl⟩
  | f :: fs, h => by
    simp only [WFL, Bool.and_eq_true] at h
    obtain ⟨g, hg⟩ := negF_total'' f h.1
    obtain ⟨gs, h1, h2⟩ := negL_total fs h.2
    exact ⟨g :: gs, by simp [negL, hg, h1], by simp [h2]⟩
end

mutual
theorem sat_nnf'' {Env} (I : Interp Env) : ∀ (ρ : Env) (f : F) (b : Bool) (g : F), nnf f b = some g →
    (Sat I ρ g ↔ (if b then ¬ Sat I ρ f else Sat I ρ f))
  | ρ, .atom a, b, g, h => by
    simp only [nnf, Option.some.injEq] at h; subst h; cases b <;> simp [Sat]
  | ρ, .smt s p, b, g, h => by
    simp only [nnf, Option.some.injEq] at h; subst h; cases b <;> cases p <;> simp [Sat]
  | ρ, .tt, b, g, h => by
    simp only [nnf, Option.some.injEq] at h; subst h; cases b <;> simp [Sat]
  | ρ, .ff, b, g, h => by
    simp only [nnf, Option.some.injEq] at h; subst h; cases b <;> simp [Sat]
  | ρ, .neg f, b, g, h => by
    simp only [nnf] at h
    have := sat_nnf'' I ρ f (!b) g h
    rw [this]; cases b <;> simp [Sat]
  | ρ, .conj fs, true, g, h => by
    simp only [nnf, Option.bind_eq_some_iff, if_true] at h
    obtain ⟨gs, h1, h2⟩ := h
    rw [sat_reduce1_orF I ρ _ _ h2]; simp only [Sat, if_true]
    exact ((sat_nnfL I ρ fs true gs h1).1 rfl).1
  | ρ, .conj fs, false, g, h => by
    simp only [nnf, Option.bind_eq_some_iff, Bool.false_eq_true, if_false] at h
    obtain ⟨gs, h1, h2⟩ := h
    rw [sat_reduce1_andF I ρ _ _ h2]; simp only [Sat, Bool.false_eq_true, if_false]
    exact ((sat_nnfL I ρ fs false gs h1).2 rfl).1
  | ρ, .disj fs, true, g, h => by
    simp only [nnf, Option.bind_eq_some_iff, if_true] at h
    obtain ⟨gs, h1, h2⟩ := h
    rw [sat_reduce1_andF I ρ _ _ h2]; simp only [Sat, if_true]
    exact ((sat_nnfL I ρ fs true gs h1).1 rfl).2
  | ρ, .disj fs, false, g, h => by
    simp only [nnf, Option.bind_eq_some_iff, Bool.false_eq_true, if_false] at h
    obtain ⟨gs, h1, h2⟩ := h
    rw [sat_reduce1_orF I ρ _ _ h2]; simp only [Sat, Bool.false_eq_true, if_false]
    exact ((sat_nnfL I ρ fs false gs h1).2 rfl).2
  | ρ, .all q f, false, g, h => by
    simp only [nnf, Bool.false_eq_true, if_false, Option.map_eq_some_iff] at h
    obtain ⟨g', h1, rfl⟩ := h
    simp only [Sat, Bool.false_eq_true, if_false]
    exact forall_congr' fun ρ' => imp_congr_right fun _ => by
      have := sat_nnf'' I ρ' f false g' h1; simpa using this
  | ρ, .ex q f, false, g, h => by
    simp only [nnf, Bool.false_eq_true, if_false, Option.map_eq_some_iff] at h
    obtain ⟨g', h1, rfl⟩ := h
    simp only [Sat, Bool.false_eq_true, if_false]
    exact exists_congr fun ρ' => and_congr_right fun _ => by
      have := sat_nnf'' I ρ' f false g' h1; simpa using this
  | ρ, .allInt v f, false, g, h => by
    simp only [nnf, Bool.false_eq_true, if_false, Option.map_eq_some_iff] at h
    obtain ⟨g', h1, rfl⟩ := h
    simp only [Sat, Bool.false_eq_true, if_false]
    exact forall_congr' fun n => by
      have := sat_nnf'' I (I.bindInt v n ρ) f false g' h1; simpa using this
  | ρ, .exInt v f, false, g, h => by
    simp only [nnf, Bool.false_eq_true, if_false, Option.map_eq_some_iff] at h
    obtain ⟨g', h1, rfl⟩ := h
    simp only [Sat, Bool.false_eq_true, if_false]
    exact exists_congr fun n => by
      have := sat_nnf'' I (I.bindInt v n ρ) f false g' h1; simpa using this
  | ρ, .all q f, true, g, h => by
    simp only [nnf, if_true, Option.map_eq_some_iff] at h
    obtain ⟨g', h1, rfl⟩ := h
    simp only [Sat, if_true]
    exact not_all_mem _ _ _ (fun ρ' => by have := sat_nnf'' I ρ' f true g' h1; simpa using this)
  | ρ, .ex q f, true, g, h => by
    simp only [nnf, if_true, Option.map_eq_some_iff] at h
    obtain ⟨g', h1, rfl⟩ := h
    simp only [Sat, if_true]
    exact not_ex_mem _ _ _ (fun ρ' => by have := sat_nnf'' I ρ' f true g' h1; simpa using this)
  | ρ, .allInt v f, true, g, h => by
    simp only [nnf, if_true, Option.map_eq_some_iff] at h
    obtain ⟨g', h1, rfl⟩ := h
    simp only [Sat, if_true]
    exact not_all_nat _ _ (fun n => by have := sat_nnf'' I (I.bindInt v n ρ) f true g' h1; simpa using this)
  | ρ, .exInt v f, true, g, h => by
    simp only [nnf, if_true, Option.map_eq_some_iff] at h
    obtain ⟨g', h1, rfl⟩ := h
    simp only [Sat, if_true]
    exact not_ex_nat _ _ (fun n => by have := sat_nnf'' I (I.bindInt v n ρ) f true g' h1; simpa using this)
theorem sat_nnfL {Env} (I : Interp Env) : ∀ (ρ : Env) (fs : List F) (b : Bool) (gs : List F),
    nnfL fs b = some gs →
    (b = true → (SatAny I ρ gs ↔ ¬ SatAll I ρ fs) ∧ (SatAll I ρ gs ↔ ¬ SatAny I ρ fs)) ∧
    (b = false → (SatAll I ρ gs ↔ SatAll I ρ fs) ∧ (SatAny I ρ gs ↔ SatAny I ρ fs))
  | ρ, [], b, gs, h => by simp only [nnfL, Option.some.injEq] at h; subst h; simp [SatAll, SatAny]
  | ρ, f :: fs, b, gs, h => by
    simp only [nnfL] at h
    split at h
    · next g gs' h1 h2 =>
      simp only [Option.some.injEq] at h; subst h
      have a := sat_nnf'' I ρ f b g h1
      have c := sat_nnfL I ρ fs b gs' h2
      constructor
      · intro hb; subst hb
        have c1 := c.1 rfl
        simp only [if_true] at a
        simp only [SatAny, SatAll, a, c1.1, c1.2]
        exact ⟨Classical.not_and_iff_not_or_not.symm, not_or.symm⟩
      · intro hb; subst hb
        have c2 := c.2 rfl
        simp only [Bool.false_eq_true, if_false] at a
        simp only [SatAny, SatAll, a, c2.1, c2.2, and_self]
    · simp at h
end

mutual
theorem nnf_total'' : ∀ (f : F) (b : Bool), WF f = true → ∃ g, nnf f b = some g
  | .atom a, b, _ => ⟨_, rfl⟩
  | .smt s p, b, _ => ⟨_, rfl⟩
  | .tt, b, _ => ⟨_, rfl⟩
  | .ff, b, _ => ⟨_, rfl⟩
  | .neg f, b, h => by
    simp only [WF] at h; obtain ⟨g, hg⟩ := nnf_total'' f (!b) h; exact ⟨g, by simp [nnf, hg]⟩
  | .conj fs, b, h => by
    simp only [WF, Bool.and_eq_true, Bool.not_eq_true', List.isEmpty_eq_false_iff] at h
    obtain ⟨gs, h1, h2⟩ := nnfL_total fs b h.2
    have : gs ≠ [] := by intro hc; subst hc; cases fs <;> simp_all
    obtain ⟨g, hg⟩ := reduce1_some (if b then orF else andF) gs this
    exact ⟨g, by simp [nnf, h1, hg]⟩
  | .disj fs, b, h => by
    simp only [WF, Bool.and_eq_true, Bool.not_eq_true', List.isEmpty_eq_false_iff] at h
    obtain ⟨gs, h1, h2⟩ := nnfL_total fs b h.2
    have : gs ≠ [] := by intro hc; subst hc; cases fs <;> simp_all
    obtain ⟨g, hg⟩ := reduce1_some (if b then andF else orF) gs this
    exact ⟨g, by simp [nnf, h1, hg]⟩
  | .all q f, false, h => by
    simp only [WF] at h; obtain ⟨g, hg⟩ := nnf_total'' f false h; exact ⟨.all q g, by simp [nnf, hg]⟩
  | .ex q f, false, h => by
    simp only [WF] at h; obtain ⟨g, hg⟩ := nnf_total'' f false h; exact ⟨.ex q g, by simp [nnf, hg]⟩
  | .allInt q f, false, h => by
    simp only [WF] at h; obtain ⟨g, hg⟩ := nnf_total'' f false h; exact ⟨.allInt q g, by simp [nnf, hg]⟩
  | .exInt q f, false, h => by
    simp only [WF] at h; obtain ⟨g, hg⟩ := nnf_total'' f false h; exact ⟨.exInt q g, by simp [nnf, hg]⟩
  | .all q f, true, h => by
    simp only [WF] at h; obtain ⟨g, hg⟩ := nnf_total'' f true h; exact ⟨.ex q g, by simp [nnf, hg]⟩
  | .ex q f, true, h => by
    simp only [WF] at h; obtain ⟨g, hg⟩ := nnf_total'' f true h; exact ⟨.all q g, by simp [nnf, hg]⟩
  | .allInt q f, true, h => by
    simp only [WF] at h; obtain ⟨g, hg⟩ := nnf_total'' f true h; exact ⟨.exInt q g, by simp [nnf, hg]⟩
  | .exInt q f, true, h => by
    simp only [WF] at h; obtain ⟨g, hg⟩ := nnf_total'' f true h; exact ⟨.allInt q g, by simp [nnf, hg]⟩
theorem nnfL_total : ∀ (fs : List F) (b : Bool), WFL fs = true →
    ∃ gs, nnfL fs b = some gs ∧ gs.length = fs.length
  | [], b, _ => ⟨[], rfl, rfl⟩
  | f :: fs, b, h => by
    simp only [WFL, Bool.and_eq_true] at h
    obtain ⟨g, hg⟩ := nnf_total'' f b h.1
    obtain ⟨gs, h1, h2⟩ := nnfL_total fs b h.2
    exact ⟨g :: gs, by simp [nnfL, hg, h1], by simp [h2]⟩
end

theorem sat_product {Env} (I : Interp Env) (ρ : Env) : ∀ ds : List F,
    SatAll I ρ ds ↔ ∃ c ∈ product (ds.map splitDisj), SatAll I ρ c
  | [] => by simp [product, SatAll]
  | d :: ds => by
    simp only [List.map_cons, product, SatAll, List.mem_flatMap, List.mem_map]
    rw [← sat_splitDisj'' I ρ d, satAny_iff, sat_product I ρ ds]
    constructor
    · rintro ⟨⟨x, hx, hs⟩, c, hc, hcs⟩
      exact ⟨x :: c, ⟨x, hx, c, hc, rfl⟩, by simp [SatAll, hs, hcs]⟩
    · rintro ⟨c', ⟨x, hx, c, hc, rfl⟩, hs⟩
      simp only [SatAll] at hs; exact ⟨⟨x, hx, hs.1⟩, c, hc, hs.2⟩

theorem satAll_filter_feq {Env} (I : Interp Env) (ρ : Env) (x : F) (hx : Sat I ρ x) (l : List F) :
    SatAll I ρ (l.filter (fun y => !feq x y)) ↔ SatAll I ρ l := by
  simp only [satAll_iff, List.mem_filter]
  constructor
  · intro h f hf
    cases hq : feq x f with
    | true => exact (sat_feq'' I ρ x f hq).1 hx
    | false => exact h f ⟨hf, by simp [hq]⟩
  · intro h f hf; exact h f hf.1

theorem sat_dedup {Env} (I : Interp Env) (ρ : Env) : ∀ l : List F,
    SatAll I ρ (dedup l) ↔ SatAll I ρ l
  | [] => by simp [dedup]
  | x :: xs => by
    simp only [dedup, SatAll]
    constructor
    · rintro ⟨h1, h2⟩; exact ⟨h1, (sat_dedup I ρ xs).1 ((satAll_filter_feq I ρ x h1 _).1 h2)⟩
    · rintro ⟨h1, h2⟩; exact ⟨h1, (satAll_filter_feq I ρ x h1 _).2 ((sat_dedup I ρ xs).2 h2)⟩

theorem sat_cube {Env} (I : Interp Env) (ρ : Env) (c : List F) (k : F) (h : cube c = some k) :
    Sat I ρ k ↔ SatAll I ρ c := by
  simp only [cube, Option.map_eq_some_iff] at h
  obtain ⟨c', h1, rfl⟩ := h
  rw [sat_foldl_andF, sat_dedup, sat_splitConj'', sat_reduce1_andF I ρ _ _ h1]
  simp [Sat]

theorem sat_mapM_cube {Env} (I : Interp Env) (ρ : Env) : ∀ (cs : List (List F)) (ks : List F),
    mapM' cube cs = some ks → (SatAny I ρ ks ↔ ∃ c ∈ cs, SatAll I ρ c)
  | [], ks, h => by simp only [mapM', Option.some.injEq] at h; subst h; simp [SatAny]
  | c :: cs, ks, h => by
    simp only [mapM'] at h
    split at h
    · next k ks' h1 h2 =>
      simp only [Option.some.injEq] at h; subst h
      simp only [SatAny, sat_cube I ρ c k h1, sat_mapM_cube I ρ cs ks' h2, List.mem_cons,
        exists_eq_or_imp]
    · simp at h

theorem dnfL_inl : ∀ (fs : List F) (e : Res) (g : F), dnfL fs = .inl e → e ≠ .ok g
  | [], e, g, h => by simp [dnfL] at h
  | f :: fs, e, g, h => by
    simp only [dnfL] at h
    split at h
    · split at h
      · simp at h
      · next e' h2 => simp only [Sum.inl.injEq] at h; subst h; exact dnfL_inl fs _ g h2
    · next hne => simp only [Sum.inl.injEq] at h; subst h; intro hc; exact hne g hc

mutual
theorem sat_dnf'' {Env} (I : Interp Env) : ∀ (ρ : Env) (f : F) (deep : Bool) (g : F),
    dnf f deep = .ok g → (Sat I ρ g ↔ Sat I ρ f)
  | ρ, .atom a, deep, g, h => by simp only [dnf, Res.ok.injEq] at h; subst h; exact Iff.rfl
  | ρ, .smt s p, deep, g, h => by simp only [dnf, Res.ok.injEq] at h; subst h; exact Iff.rfl
  | ρ, .tt, deep, g, h => by simp only [dnf, Res.ok.injEq] at h; subst h; exact Iff.rfl
  | ρ, .ff, deep, g, h => by simp only [dnf, Res.ok.injEq] at h; subst h; exact Iff.rfl
  | ρ, .allInt v f, deep, g, h => by simp only [dnf, Res.ok.injEq] at h; subst h; exact Iff.rfl
  | ρ, .exInt v f, deep, g, h => by simp only [dnf, Res.ok.injEq] at h; subst h; exact Iff.rfl
  | ρ, .neg f, deep, g, h => by
    simp only [dnf] at h
    split at h
    · simp at h
    · simp only [Res.ok.injEq] at h; subst h; exact Iff.rfl
  | ρ, .conj fs, deep, g, h => by
    simp only [dnf] at h
    split at h
    · next e he => exact absurd h (dnfL_inl fs e g he)
    · next ds hd =>
      have ih := sat_dnfL I ρ fs ds hd
      split at h
      · simp only [Res.ok.injEq] at h; subst h; exact Iff.rfl
      · split at h
        · simp at h
        · next cubes hc =>
          simp only [Res.ok.injEq] at h; subst h
          rw [sat_foldl_orF, sat_mapM_cube I ρ _ _ hc, ← sat_product I ρ ds, ih.1]
          simp [Sat]
  | ρ, .disj fs, deep, g, h => by
    simp only [dnf] at h
    split at h
    · next e he => exact absurd h (dnfL_inl fs e g he)
    · next ds hd =>
      have ih := sat_dnfL I ρ fs ds hd
      simp only [Res.ok.injEq] at h; subst h
      rw [sat_foldl_orF, ih.2]; simp [Sat]
  | ρ, .all q f, true, g, h => by
    simp only [dnf, if_true] at h
    split at h
    · next g' hg =>
      simp only [Res.ok.injEq] at h; subst h
      simp only [Sat, sat_dnf'' I _ f true g' hg]
    · next hne => exact absurd h (hne g)
  | ρ, .all q f, false, g, h => by
    simp only [dnf, Bool.false_eq_true, if_false, Res.ok.injEq] at h; subst h; exact Iff.rfl
  | ρ, .ex q f, true, g, h => by
    simp only [dnf, if_true] at h
    split at h
    · next g' hg =>
      simp only [Res.ok.injEq] at h; subst h
      simp only [Sat, sat_dnf'' I _ f true g' hg]
    · next hne => exact absurd h (hne g)
  | ρ, .ex q f, false, g, h => by
    simp only [dnf, Bool.false_eq_true, if_false, Res.ok.injEq] at h; subst h; exact Iff.rfl
theorem sat_dnfL {Env} (I : Interp Env) : ∀ (ρ : Env) (fs ds : List F), dnfL fs = .inr ds →
    (SatAll I ρ ds ↔ SatAll I ρ fs) ∧ (SatAny I ρ ds ↔ SatAny I ρ fs)
  | ρ, [], ds, h => by simp only [dnfL, Sum.inr.injEq] at h; subst h; simp
  | ρ, f :: fs, ds, h => by
    simp only [dnfL] at h
    split at h
    · next g hg =>
      split at h
      · next gs hgs =>
        simp only [Sum.inr.injEq] at h; subst h
        have a := sat_dnf'' I ρ f true g hg
        have b := sat_dnfL I ρ fs gs hgs
        simp only [SatAll, SatAny, a, b.1, b.2, and_self]
      · simp at h
    · simp at h
end

theorem product_length : ∀ (ls : List (List F)) (c : List F), c ∈ product ls → c.length = ls.length
  | [], c, h => by simp only [product, List.mem_singleton] at h; subst h; rfl
  | l :: ls, c, h => by
    simp only [product, List.mem_flatMap, List.mem_map] at h
    obtain ⟨x, _, r, hr, rfl⟩ := h
    simp [product_length ls r hr]

theorem mapM'_some (f : List F → Option F) : ∀ (cs : List (List F)),
    (∀ c ∈ cs, ∃ k, f c = some k) → ∃ ks, mapM' f cs = some ks
  | [], _ => ⟨[], rfl⟩
  | c :: cs, h => by
    obtain ⟨k, hk⟩ := h c (by simp)
    obtain ⟨ks, hks⟩ := mapM'_some f cs (fun c hc => h c (by simp [hc]))
    exact ⟨k :: ks, by simp [mapM', hk, hks]⟩

theorem cube_some (c : List F) (h : c ≠ []) : ∃ k, cube c = some k := by
  obtain ⟨g, hg⟩ := reduce1_some andF c h
  exact ⟨(dedup (splitConj g)).foldl andF tt, by simp [cube, hg]⟩

mutual
theorem dnf_total'' : ∀ (f : F) (deep : Bool), WF f = true → NegOnAtoms f = true →
    ∃ g, dnf f deep = .ok g
  | .atom a, deep, _, _ => ⟨_, rfl⟩
  | .smt s p, deep, _, _ => ⟨_, rfl⟩
  | .tt, deep, _, _ => ⟨_, rfl⟩
  | .ff, deep, _, _ => ⟨_, rfl⟩
  | .allInt v f, deep, _, _ => ⟨_, rfl⟩
  | .exInt v f, deep, _, _ => ⟨_, rfl⟩
  | .neg f, deep, _, hn => by
    cases f with
    | atom a => exact ⟨.neg (.atom a), by simp [dnf, isCombinator]⟩
    | _ => simp [NegOnAtoms] at hn
  | .conj fs, deep, hw, hn => by
    simp only [WF, Bool.and_eq_true, Bool.not_eq_true', List.isEmpty_eq_false_iff] at hw
    simp only [NegOnAtoms] at hn
    obtain ⟨ds, h1, h2⟩ := dnfL_total fs hw.2 hn
    simp only [dnf, h1]
    split
    · exact ⟨_, rfl⟩
    · have hne : ds ≠ [] := by intro hc; subst hc; cases fs <;> simp_all
      have : ∀ c ∈ product (ds.map splitDisj), ∃ k, cube c = some k := by
        intro c hc
        apply cube_some
        have := product_length _ c hc
        rw [List.length_map] at this
        intro hc'; subst hc'; exact hne (List.length_eq_zero_iff.mp this.symm)
      obtain ⟨ks, hks⟩ := mapM'_some cube _ this
      simp only [hks]; exact ⟨_, rfl⟩
  | .disj fs, deep, hw, hn => by
    simp only [WF, Bool.and_eq_true] at hw
    simp only [NegOnAtoms] at hn
    obtain ⟨ds, h1, h2⟩ := dnfL_total fs hw.2 hn
    simp only [dnf, h1]; exact ⟨_, rfl⟩
  | .all q f, true, hw, hn => by
    simp only [WF] at hw; simp only [NegOnAtoms] at hn
    obtain ⟨g, hg⟩ := dnf_total'' f true hw hn
    simp only [dnf, if_true, hg]; exact ⟨_, rfl⟩
  | .all q f, false, hw, hn => ⟨_, rfl⟩
  | .ex q f, true, hw, hn => by
    simp only [WF] at hw; simp only [NegOnAtoms] at hn
    obtain ⟨g, hg⟩ := dnf_total'' f true hw hn
    simp only [dnf, if_true, hg]; exact ⟨_, rfl⟩
  | .ex q f, false, hw, hn => ⟨_, rfl⟩
theorem dnfL_total : ∀ (fs : List F), WFL fs = true → NegOnAtomsL fs = true →
    ∃ ds, dnfL fs = .inr ds ∧ ds.length = fs.length
  | [], _, _ => ⟨[], rfl, rfl⟩
  | f :: fs, hw, hn => by
    simp only [WFL, Bool.and_eq_true] at hw
    simp only [NegOnAtomsL, Bool.and_eq_true] at hn
    obtain ⟨g, hg⟩ := dnf_total'' f true hw.1 hn.1
    obtain ⟨gs, h1, h2⟩ := dnfL_total fs hw.2 hn.2
    exact ⟨g :: gs, by simp [dnfL, hg, h1], by simp [h2]⟩
end

/-! ### The eleven lemmas used by Properties/C09.lean -/

theorem sat_feq' {Env} (I : Interp Env) (ρ : Env) (a b : F) (h : feq a b = true) :
    Sat I ρ a ↔ Sat I ρ b := sat_feq'' I ρ a b h

theorem sat_andF' {Env} (I : Interp Env) (ρ : Env) (a b : F) :
    Sat I ρ (andF a b) ↔ Sat I ρ a ∧ Sat I ρ b := sat_andF'' I ρ a b

theorem sat_orF' {Env} (I : Interp Env) (ρ : Env) (a b : F) :
    Sat I ρ (orF a b) ↔ Sat I ρ a ∨ Sat I ρ b := sat_orF'' I ρ a b

theorem sat_splitConj' {Env} (I : Interp Env) (ρ : Env) (f : F) :
    SatAll I ρ (splitConj f) ↔ Sat I ρ f := sat_splitConj'' I ρ f

theorem sat_splitDisj' {Env} (I : Interp Env) (ρ : Env) (f : F) :
    SatAny I ρ (splitDisj f) ↔ Sat I ρ f := sat_splitDisj'' I ρ f

theorem sat_negF' {Env} (I : Interp Env) (ρ : Env) (f g : F) (h : negF f = some g) :
    Sat I ρ g ↔ ¬ Sat I ρ f := sat_negF'' I ρ f g h

theorem negF_total' (f : F) (h : WF f = true) : ∃ g, negF f = some g := negF_total'' f h

theorem sat_nnf' {Env} (I : Interp Env) (ρ : Env) (f g : F) (b : Bool) (h : nnf f b = some g) :
    Sat I ρ g ↔ (if b then ¬ Sat I ρ f else Sat I ρ f) := sat_nnf'' I ρ f b g h

theorem nnf_total' (f : F) (b : Bool) (h : WF f = true) : ∃ g, nnf f b = some g := nnf_total'' f b h

theorem sat_dnf' {Env} (I : Interp Env) (ρ : Env) (f g : F) (deep : Bool) (h : dnf f deep = .ok g) :
    Sat I ρ g ↔ Sat I ρ f := sat_dnf'' I ρ f deep g h

theorem dnf_total' (f : F) (deep : Bool) (hw : WF f = true) (hn : NegOnAtoms f = true) :
    ∃ g, dnf f deep = .ok g := dnf_total'' f deep hw hn

end IslaVerif.C09
