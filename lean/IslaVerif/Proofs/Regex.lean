import IslaVerif.Proofs.RegexLang
/- correctness of the derivative-based matcher w.r.t. the denotational semantics -/
namespace IslaVerif.Re

/-! ### helpers -/

/-- a flattening that starts with `c` has a first non-empty factor `c :: u`; the empty factors in
front of it can be moved behind it, so the number of factors is preserved -/
theorem flatten_cons_split {P : List Char → Prop} {c : Char} {w : List Char} :
    ∀ ws : List (List Char), ws.flatten = c :: w → (∀ x ∈ ws, P x) →
      ∃ (u : List Char) (ws' : List (List Char)), ws'.length + 1 = ws.length ∧ w = u ++ ws'.flatten ∧ P (c :: u) ∧ ∀ x ∈ ws', P x
  | [], h, _ => by simp at h
  | [] :: rest, h, hp => by
      obtain ⟨u, ws', hl, hw, hpu, hps⟩ :=
        flatten_cons_split rest (by simpa using h) (fun x hx => hp x (by simp [hx]))
      refine ⟨u, [] :: ws', by simp [hl], by simpa using hw, hpu, ?_⟩
      intro x hx
      rcases List.mem_cons.1 hx with rfl | hx
      · exact hp _ (by simp)
      · exact hps x hx
  | (d :: u) :: rest, h, hp => by
      simp at h
      obtain ⟨rfl, rfl⟩ := h
      exact ⟨u, rest, rfl, rfl, hp _ (by simp), fun x hx => hp x (by simp [hx])⟩

theorem langCat_pair (a b : Re) (w : List Char) :
    LangCat [a, b] w ↔ ∃ u v, w = u ++ v ∧ Lang a u ∧ Lang b v := by
  simp only [LangCat]
  constructor
  · rintro ⟨u, v, rfl, ha, u', v', rfl, hb, rfl⟩
    exact ⟨u, u', by simp, ha, hb⟩
  · rintro ⟨u, v, rfl, ha, hb⟩
    exact ⟨u, v, rfl, ha, v, [], by simp, hb, rfl⟩

/-! ### nullable -/

mutual
theorem nullable_iff_aux : ∀ r : Re, nullable r = true ↔ Lang r []
  | .str s => by cases s <;> simp [nullable, Lang]
  | .range lo hi => by simp [nullable, Lang]
  | .allchar => by simp [nullable, Lang]
  | .all => by simp [nullable, Lang]
  | .none => by simp [nullable, Lang]
  | .union rs => by simpa [nullable, Lang] using nullableAny_iff_aux rs
  | .concat rs => by simpa [nullable, Lang] using nullableCat_iff_aux rs
  | .star r => by
      simp only [nullable, Lang, true_iff]
      exact ⟨[], by simp⟩
  | .plus r => by
      simp only [nullable, Lang]
      rw [nullable_iff_aux r]
      constructor
      · intro h
        exact ⟨[[]], by simp, by simp, by simpa using h⟩
      · rintro ⟨ws, hne, hfl, hall⟩
        cases ws with
        | nil => exact absurd rfl hne
        | cons x rest =>
          have : x = [] := by
            have := hfl.symm
            simp at this
            exact this.1
          subst this
          exact hall _ (by simp)
  | .opt r => by simp [nullable, Lang]
  | .loop r lo hi => by
      simp only [nullable, Lang]
      have ih := nullable_iff_aux r
      constructor
      · intro h
        split at h
        · simp at h
        · rename_i hlt
          by_cases h0 : lo = 0
          · exact ⟨[], by simp [h0], by simp, by simp, by simp⟩
          · have hn : nullable r = true := by simpa [h0] using h
            refine ⟨List.replicate lo [], by simp, by simp; omega, ?_, ?_⟩
            · clear h h0 hlt
              induction lo with
              | zero => simp
              | succ n ihn => simp [List.replicate_succ, ← ihn]
            · intro x hx
              rw [(List.mem_replicate.1 hx).2]
              exact ih.1 hn
      · rintro ⟨ws, hlo, hhi, hfl, hall⟩
        have hle : ¬ hi < lo := by omega
        simp only [hle, if_false]
        by_cases h0 : lo = 0
        · simp [h0]
        · cases ws with
          | nil => simp at hlo; exact absurd hlo h0
          | cons x rest =>
            have : x = [] := by
              have := hfl.symm
              simp at this
              exact this.1
            subst this
            have := ih.2 (hall _ (by simp))
            simp [this]
  | .comp r => by
      simp only [nullable, Lang]
      rw [← nullable_iff_aux r]
      cases nullable r <;> simp
  | .inter rs => by simpa [nullable, Lang] using nullableAll_iff_aux rs
  | .diff a b => by
      simp only [nullable, Lang]
      rw [← nullable_iff_aux a, ← nullable_iff_aux b]
      cases nullable a <;> cases nullable b <;> simp
theorem nullableAny_iff_aux : ∀ rs : List Re, nullableAny rs = true ↔ LangAny rs []
  | [] => by simp [nullableAny, LangAny]
  | r :: rs => by
      simp only [nullableAny, LangAny, Bool.or_eq_true]
      rw [nullable_iff_aux r, nullableAny_iff_aux rs]
theorem nullableAll_iff_aux : ∀ rs : List Re, nullableAll rs = true ↔ LangAll rs []
  | [] => by simp [nullableAll, LangAll]
  | r :: rs => by
      simp only [nullableAll, LangAll, Bool.and_eq_true]
      rw [nullable_iff_aux r, nullableAll_iff_aux rs]
theorem nullableCat_iff_aux : ∀ rs : List Re, nullableAll rs = true ↔ LangCat rs []
  | [] => by simp [nullableAll, LangCat]
  | r :: rs => by
      simp only [nullableAll, LangCat, Bool.and_eq_true]
      rw [nullable_iff_aux r, nullableCat_iff_aux rs]
      constructor
      · rintro ⟨h1, h2⟩
        exact ⟨[], [], rfl, h1, h2⟩
      · rintro ⟨u, v, huv, h1, h2⟩
        have := huv.symm
        simp at this
        obtain ⟨rfl, rfl⟩ := this
        exact ⟨h1, h2⟩
end

theorem nullable_iff' (r : Re) : nullable r = true ↔ Lang r [] := nullable_iff_aux r

/-! ### derivative -/

theorem star_cons_iff (r : Re) (c : Char) (w : List Char) :
    Lang (star r) (c :: w) ↔ ∃ u v, w = u ++ v ∧ Lang r (c :: u) ∧ Lang (star r) v := by
  simp only [Lang]
  constructor
  · rintro ⟨ws, hfl, hall⟩
    obtain ⟨u, ws', _, hw, hu, hws'⟩ := flatten_cons_split ws hfl.symm hall
    exact ⟨u, ws'.flatten, hw, hu, ws', rfl, hws'⟩
  · rintro ⟨u, v, rfl, hu, ws', rfl, hws'⟩
    refine ⟨(c :: u) :: ws', by simp, ?_⟩
    intro x hx
    rcases List.mem_cons.1 hx with rfl | hx
    · exact hu
    · exact hws' x hx

theorem plus_cons_iff (r : Re) (c : Char) (w : List Char) :
    Lang (plus r) (c :: w) ↔ ∃ u v, w = u ++ v ∧ Lang r (c :: u) ∧ Lang (star r) v := by
  simp only [Lang]
  constructor
  · rintro ⟨ws, _, hfl, hall⟩
    obtain ⟨u, ws', _, hw, hu, hws'⟩ := flatten_cons_split ws hfl.symm hall
    exact ⟨u, ws'.flatten, hw, hu, ws', rfl, hws'⟩
  · rintro ⟨u, v, rfl, hu, ws', rfl, hws'⟩
    refine ⟨(c :: u) :: ws', by simp, by simp, ?_⟩
    intro x hx
    rcases List.mem_cons.1 hx with rfl | hx
    · exact hu
    · exact hws' x hx

theorem loop_cons_iff (r : Re) (lo hi : Nat) (c : Char) (w : List Char) (hhi : 1 ≤ hi) :
    Lang (loop r lo hi) (c :: w) ↔
      ∃ u v, w = u ++ v ∧ Lang r (c :: u) ∧ Lang (loop r (lo - 1) (hi - 1)) v := by
  simp only [Lang]
  constructor
  · rintro ⟨ws, h1, h2, hfl, hall⟩
    obtain ⟨u, ws', hl, hw, hu, hws'⟩ := flatten_cons_split ws hfl.symm hall
    exact ⟨u, ws'.flatten, hw, hu, ws', by omega, by omega, rfl, hws'⟩
  · rintro ⟨u, v, rfl, hu, ws', h1, h2, rfl, hws'⟩
    refine ⟨(c :: u) :: ws', by simp; omega, by simp; omega, by simp, ?_⟩
    intro x hx
    rcases List.mem_cons.1 hx with rfl | hx
    · exact hu
    · exact hws' x hx

theorem loop_cons_zero (r : Re) (lo : Nat) (c : Char) (w : List Char) :
    ¬ Lang (loop r lo 0) (c :: w) := by
  simp only [Lang]
  rintro ⟨ws, _, h2, hfl, _⟩
  have : ws = [] := List.eq_nil_of_length_eq_zero (by omega)
  subst this
  simp at hfl

theorem loop_cons_lt (r : Re) (lo hi : Nat) (w : List Char) (h : hi < lo) :
    ¬ Lang (loop r lo hi) w := by
  simp only [Lang]
  rintro ⟨ws, h1, h2, _, _⟩
  omega

mutual
theorem deriv_iff_aux (c : Char) : ∀ (r : Re) (w : List Char), Lang (deriv c r) w ↔ Lang r (c :: w)
  | .str [], w => by simp [deriv, Lang]
  | .str (a :: s), w => by
      simp only [deriv]
      split
      · rename_i h
        have : a = c := by simpa using h
        subst this
        simp [Lang]
      · rename_i h
        have : ¬ a = c := by simpa using h
        simp only [Lang, List.cons.injEq, false_iff]
        rintro ⟨rfl, _⟩
        exact this rfl
  | .range lo hi, w => by
      simp only [deriv]
      split
      · rename_i h
        simp only [Lang]
        constructor
        · rintro rfl
          exact ⟨c, rfl, h⟩
        · rintro ⟨d, hd, _⟩
          simp at hd
          exact hd.2
      · rename_i h
        simp only [Lang, false_iff]
        rintro ⟨d, hd, hr⟩
        simp at hd
        obtain ⟨rfl, _⟩ := hd
        exact h hr
  | .allchar, w => by
      simp only [deriv, Lang]
      constructor
      · rintro rfl
        exact ⟨c, rfl⟩
      · rintro ⟨d, hd⟩
        simp at hd
        exact hd.2
  | .all, w => by simp [deriv, Lang]
  | .none, w => by simp [deriv, Lang]
  | .union rs, w => by simpa [deriv, Lang] using derivAny_iff_aux c rs w
  | .concat rs, w => by simpa [deriv, Lang] using derivConcat_iff_aux c rs w
  | .star r, w => by
      rw [star_cons_iff]
      simp only [deriv]
      rw [Lang, langCat_pair]
      constructor
      · rintro ⟨u, v, rfl, h1, h2⟩
        exact ⟨u, v, rfl, (deriv_iff_aux c r u).1 h1, h2⟩
      · rintro ⟨u, v, rfl, h1, h2⟩
        exact ⟨u, v, rfl, (deriv_iff_aux c r u).2 h1, h2⟩
  | .plus r, w => by
      rw [plus_cons_iff]
      simp only [deriv]
      rw [Lang, langCat_pair]
      constructor
      · rintro ⟨u, v, rfl, h1, h2⟩
        exact ⟨u, v, rfl, (deriv_iff_aux c r u).1 h1, h2⟩
      · rintro ⟨u, v, rfl, h1, h2⟩
        exact ⟨u, v, rfl, (deriv_iff_aux c r u).2 h1, h2⟩
  | .opt r, w => by
      simp only [deriv]
      rw [deriv_iff_aux c r w]
      simp [Lang]
  | .loop r lo hi, w => by
      simp only [deriv]
      split
      · rename_i h
        simp only [Bool.or_eq_true, decide_eq_true_eq, beq_iff_eq] at h
        rw [Lang]
        simp only [false_iff]
        rcases h with h | h
        · exact loop_cons_lt r lo hi _ h
        · subst h
          exact loop_cons_zero r lo c w
      · rename_i h
        simp only [Bool.or_eq_true, decide_eq_true_eq, beq_iff_eq, not_or] at h
        rw [loop_cons_iff r lo hi c w (by omega)]
        rw [Lang, langCat_pair]
        constructor
        · rintro ⟨u, v, rfl, h1, h2⟩
          exact ⟨u, v, rfl, (deriv_iff_aux c r u).1 h1, h2⟩
        · rintro ⟨u, v, rfl, h1, h2⟩
          exact ⟨u, v, rfl, (deriv_iff_aux c r u).2 h1, h2⟩
  | .comp r, w => by
      simp only [deriv, Lang]
      rw [deriv_iff_aux c r w]
  | .inter rs, w => by simpa [deriv, Lang] using derivAll_iff_aux c rs w
  | .diff a b, w => by
      simp only [deriv, Lang]
      rw [deriv_iff_aux c a w, deriv_iff_aux c b w]
theorem derivAny_iff_aux (c : Char) : ∀ (rs : List Re) (w : List Char),
    LangAny (derivL c rs) w ↔ LangAny rs (c :: w)
  | [], w => by simp [derivL, LangAny]
  | r :: rs, w => by
      simp only [derivL, LangAny]
      rw [deriv_iff_aux c r w, derivAny_iff_aux c rs w]
theorem derivAll_iff_aux (c : Char) : ∀ (rs : List Re) (w : List Char),
    LangAll (derivL c rs) w ↔ LangAll rs (c :: w)
  | [], w => by simp [derivL, LangAll]
  | r :: rs, w => by
      simp only [derivL, LangAll]
      rw [deriv_iff_aux c r w, derivAll_iff_aux c rs w]
theorem derivConcat_iff_aux (c : Char) : ∀ (rs : List Re) (w : List Char),
    Lang (derivConcat c rs) w ↔ LangCat rs (c :: w)
  | [], w => by simp [derivConcat, Lang, LangCat]
  | r :: rs, w => by
      have hcat : LangCat (r :: rs) (c :: w) ↔
          (Lang r [] ∧ LangCat rs (c :: w)) ∨ LangCat (deriv c r :: rs) w := by
        simp only [LangCat]
        constructor
        · rintro ⟨u, v, huv, h1, h2⟩
          cases u with
          | nil =>
            simp at huv
            subst huv
            exact Or.inl ⟨h1, h2⟩
          | cons d u =>
            simp at huv
            obtain ⟨rfl, rfl⟩ := huv
            exact Or.inr ⟨u, v, rfl, (deriv_iff_aux c r u).2 h1, h2⟩
        · rintro (⟨h1, h2⟩ | ⟨u, v, rfl, h1, h2⟩)
          · exact ⟨[], c :: w, rfl, h1, h2⟩
          · exact ⟨c :: u, v, rfl, (deriv_iff_aux c r u).1 h1, h2⟩
      rw [hcat]
      simp only [derivConcat]
      split
      · rename_i hn
        have hn' := (nullable_iff' r).1 hn
        simp only [Lang, LangAny, or_false]
        rw [derivConcat_iff_aux c rs w]
        constructor
        · rintro (h | h)
          · exact Or.inr h
          · exact Or.inl ⟨hn', h⟩
        · rintro (⟨_, h⟩ | h)
          · exact Or.inr h
          · exact Or.inl h
      · rename_i hn
        have hn' : ¬ Lang r [] := fun h => hn ((nullable_iff' r).2 h)
        simp only [Lang]
        constructor
        · exact Or.inr
        · rintro (⟨h, _⟩ | h)
          · exact absurd h hn'
          · exact h
end

theorem deriv_iff' (c : Char) (r : Re) (w : List Char) : Lang (deriv c r) w ↔ Lang r (c :: w) :=
  deriv_iff_aux c r w

/-- the executable matcher decides the language -/
theorem matchB_iff' (r : Re) (w : List Char) : matchB r w = true ↔ Lang r w := by
  induction w generalizing r with
  | nil => simpa [matchB] using nullable_iff' r
  | cons c cs ih =>
    simp only [matchB]
    rw [ih, deriv_iff']

end IslaVerif.Re
