import IslaVerif.Model.Intervals
import IslaVerif.Proofs.RegexLang
/- C15: merge_intervals, and exactness of the interval inference on the concatenation-free shape -/
namespace IslaVerif.C15
open IslaVerif IslaVerif.Re IslaVerif.Intervals

/-- all bounds lie within the sentinels and intervals are non-empty -/
def Bounded (l : List Iv) : Prop := ∀ iv ∈ l, -maxsize ≤ iv.1 ∧ iv.2 ≤ maxsize ∧ iv.1 ≤ iv.2

/-- sorted by lower bound and pairwise separated by at least one integer -/
def Separated : List Iv → Prop
  | [] => True
  | [_] => True
  | a :: b :: rest => a.2 + 1 < b.1 ∧ Separated (b :: rest)

/-- the interval list `I` denotes exactly the integer values of the strings matched by `r` -/
def Exact (r : Re) (I : List Iv) : Prop :=
  ∀ n : Int, inIvs I n = true ↔ ∃ s, Lang r s ∧ intVal s = some n

/-! ### helpers for `merge_intervals` -/

/-- membership in one interval under the sentinel semantics -/
def memIv (iv : Iv) (n : Int) : Prop := (iv.1 = -maxsize ∨ iv.1 ≤ n) ∧ (iv.2 = maxsize ∨ n ≤ iv.2)

theorem inIvs_iff (l : List Iv) (n : Int) : inIvs l n = true ↔ ∃ iv ∈ l, memIv iv n := by
  simp [inIvs, memIv, List.any_eq_true]

theorem mapM_map_some (ls : List (List Iv)) : (ls.map some).mapM id = some ls := by
  induction ls with
  | nil => rfl
  | cons a l ih => simp [List.mapM_cons, ih]

theorem mapM_none (ls : List (Option (List Iv))) (h : Option.none ∈ ls) : ls.mapM id = Option.none := by
  induction ls with
  | nil => cases h
  | cons a l ih =>
    rw [List.mapM_cons]
    cases a with
    | none => rfl
    | some x =>
      have : Option.none ∈ l := by simpa using h
      simp [ih this]

theorem mem_insertSorted (x y : Iv) (l : List Iv) : y ∈ insertSorted x l ↔ y = x ∨ y ∈ l := by
  induction l with
  | nil => simp [insertSorted]
  | cons a l ih =>
    unfold insertSorted
    split
    · simp
    · simp [ih]; grind

abbrev SortedLo (l : List Iv) : Prop := List.Pairwise (fun a b : Iv => a.1 ≤ b.1) l

theorem sorted_insertSorted (x : Iv) (l : List Iv) (h : SortedLo l) : SortedLo (insertSorted x l) := by
  induction l with
  | nil => simp [insertSorted]
  | cons a l ih =>
    unfold insertSorted
    have ⟨h1, h2⟩ := List.pairwise_cons.mp h
    split
    · rename_i hlt
      refine List.pairwise_cons.mpr ⟨?_, h⟩
      intro b hb
      rcases List.mem_cons.mp hb with rfl | hb
      · omega
      · have := h1 b hb; omega
    · rename_i hlt
      refine List.pairwise_cons.mpr ⟨?_, ih h2⟩
      intro b hb
      rcases (mem_insertSorted x b l).mp hb with rfl | hb
      · omega
      · exact h1 b hb

theorem sortFold (l acc : List Iv) (h : SortedLo acc) :
    SortedLo (l.foldl (fun acc x => insertSorted x acc) acc) ∧
    ∀ y, y ∈ l.foldl (fun acc x => insertSorted x acc) acc ↔ y ∈ acc ∨ y ∈ l := by
  induction l generalizing acc with
  | nil => simp [h]
  | cons a l ih =>
    have := ih (insertSorted a acc) (sorted_insertSorted a acc h)
    refine ⟨this.1, fun y => ?_⟩
    rw [List.foldl_cons, this.2, mem_insertSorted]
    simp; grind

theorem sortByLo_sorted (l : List Iv) : SortedLo (sortByLo l) := (sortFold l [] List.Pairwise.nil).1
theorem mem_sortByLo (l : List Iv) (y : Iv) : y ∈ sortByLo l ↔ y ∈ l := by
  unfold sortByLo; rw [(sortFold l [] List.Pairwise.nil).2]; simp

abbrev SepDesc (l : List Iv) : Prop := List.Pairwise (fun a b : Iv => b.2 + 1 < a.1) l

theorem memIv_merge (last iv : Iv) (n : Int)
    (h1 : -maxsize ≤ last.1 ∧ last.2 ≤ maxsize ∧ last.1 ≤ last.2)
    (h2 : -maxsize ≤ iv.1 ∧ iv.2 ≤ maxsize ∧ iv.1 ≤ iv.2)
    (h3 : last.1 ≤ iv.1) (h4 : ¬ last.2 + 1 < iv.1) :
    memIv (last.1, max last.2 iv.2) n ↔ memIv last n ∨ memIv iv n := by
  unfold memIv
  simp only [maxsize] at *
  omega

theorem mergeFold (l acc : List Iv) (hba : Bounded acc) (hsa : SepDesc acc) (hbl : Bounded l)
    (hsl : SortedLo l) (hle : ∀ a ∈ acc, ∀ x ∈ l, a.1 ≤ x.1) :
    Bounded (l.foldl mergeStep acc) ∧ SepDesc (l.foldl mergeStep acc) ∧
    ∀ n, (∃ iv ∈ l.foldl mergeStep acc, memIv iv n) ↔ (∃ iv ∈ acc, memIv iv n) ∨ (∃ iv ∈ l, memIv iv n) := by
  induction l generalizing acc with
  | nil => simp [hba, hsa]
  | cons x l ih =>
    have ⟨hx1, hsl'⟩ := List.pairwise_cons.mp hsl
    have hbx := hbl x (List.mem_cons_self)
    have hbl' : Bounded l := fun iv hiv => hbl iv (List.mem_cons_of_mem _ hiv)
    rw [List.foldl_cons]
    cases acc with
    | nil =>
      have := ih [x] (by intro iv hiv; simp at hiv; subst hiv; exact hbx) (by simp) hbl' hsl'
        (by intro a ha y hy; simp at ha; subst ha; exact hx1 y hy)
      simp only [mergeStep]
      refine ⟨this.1, this.2.1, fun n => ?_⟩
      rw [this.2.2]; simp
    | cons last rest =>
      have hbl0 := hba last List.mem_cons_self
      have hlx := hle last List.mem_cons_self x List.mem_cons_self
      have ⟨hs1, hs2⟩ := List.pairwise_cons.mp hsa
      simp only [mergeStep]
      split
      · rename_i hlt
        have := ih (x :: last :: rest)
          (by intro iv hiv; rcases List.mem_cons.mp hiv with rfl | hiv
              · exact hbx
              · exact hba iv hiv)
          (by refine List.pairwise_cons.mpr ⟨?_, hsa⟩
              intro b hb
              rcases List.mem_cons.mp hb with rfl | hb
              · exact hlt
              · have := hs1 b hb; omega)
          hbl' hsl'
          (by intro a ha y hy
              rcases List.mem_cons.mp ha with rfl | ha
              · exact hx1 y hy
              · exact hle a ha y (List.mem_cons_of_mem _ hy))
        refine ⟨this.1, this.2.1, fun n => ?_⟩
        rw [this.2.2]; simp only [List.mem_cons, exists_eq_or_imp]; grind
      · rename_i hlt
        have hm := fun n => memIv_merge last x n hbl0 hbx hlx hlt
        have := ih ((last.1, max last.2 x.2) :: rest)
          (by intro iv hiv; rcases List.mem_cons.mp hiv with rfl | hiv
              · simp only; omega
              · exact hba iv (List.mem_cons_of_mem _ hiv))
          (by refine List.pairwise_cons.mpr ⟨?_, hs2⟩
              intro b hb
              exact hs1 b hb)
          hbl' hsl'
          (by intro a ha y hy
              rcases List.mem_cons.mp ha with rfl | ha
              · have := hx1 y hy; simp only; omega
              · exact hle a (List.mem_cons_of_mem _ ha) y (List.mem_cons_of_mem _ hy))
        refine ⟨this.1, this.2.1, fun n => ?_⟩
        rw [this.2.2]; simp only [List.mem_cons, exists_eq_or_imp, hm]; grind

theorem separated_of_pairwise (l : List Iv) (h : List.Pairwise (fun a b : Iv => a.2 + 1 < b.1) l) :
    Separated l := by
  induction l with
  | nil => trivial
  | cons a l ih =>
    cases l with
    | nil => trivial
    | cons b rest =>
      have ⟨h1, h2⟩ := List.pairwise_cons.mp h
      exact ⟨h1 b List.mem_cons_self, ih h2⟩

theorem mergeSorted_spec (l : List Iv) (hb : Bounded l) :
    Bounded (mergeSorted (sortByLo l)) ∧ Separated (mergeSorted (sortByLo l)) ∧
    ∀ n, inIvs (mergeSorted (sortByLo l)) n = true ↔ inIvs l n = true := by
  have hbs : Bounded (sortByLo l) := fun iv hiv => hb iv ((mem_sortByLo l iv).mp hiv)
  have := mergeFold (sortByLo l) [] (by intro iv hiv; cases hiv) List.Pairwise.nil hbs
    (sortByLo_sorted l) (by intro a ha; cases ha)
  unfold mergeSorted
  refine ⟨?_, ?_, fun n => ?_⟩
  · intro iv hiv; exact this.1 iv (List.mem_reverse.mp hiv)
  · apply separated_of_pairwise
    rw [List.pairwise_reverse]; exact this.2.1
  · rw [inIvs_iff, inIvs_iff]
    simp only [List.mem_reverse, this.2.2, mem_sortByLo]
    simp

theorem bounded_flatten (ls : List (List Iv)) (hb : ∀ l ∈ ls, Bounded l) : Bounded ls.flatten := by
  intro iv hiv
  obtain ⟨l, hl, hiv⟩ := List.mem_flatten.mp hiv
  exact hb l hl iv hiv

theorem inIvs_flatten (ls : List (List Iv)) (n : Int) :
    inIvs ls.flatten n = true ↔ ∃ l ∈ ls, inIvs l n = true := by
  simp only [inIvs_iff, List.mem_flatten]; grind

theorem mergeIntervals_some (ls : List (List Iv)) (hne : ls ≠ []) :
    mergeIntervals (ls.map some) = some (mergeSorted (sortByLo ls.flatten)) := by
  unfold mergeIntervals
  rw [mapM_map_some]
  simp [hne]

/-- `merge_intervals` keeps the union of the denoted sets … -/
theorem mergeIntervals_mem' (ls : List (List Iv)) (hne : ls ≠ []) (hb : ∀ l ∈ ls, Bounded l) (n : Int) :
    ∃ m, mergeIntervals (ls.map some) = some m ∧ (inIvs m n = true ↔ ∃ l ∈ ls, inIvs l n = true) := by
  refine ⟨_, mergeIntervals_some ls hne, ?_⟩
  rw [(mergeSorted_spec _ (bounded_flatten ls hb)).2.2, inIvs_flatten]

/-- … and its result is bounded, sorted and separated -/
theorem mergeIntervals_shape' (ls : List (List Iv)) (m : List Iv) (hb : ∀ l ∈ ls, Bounded l)
    (h : mergeIntervals (ls.map some) = some m) : Bounded m ∧ Separated m := by
  have hne : ls ≠ [] := by
    rintro rfl
    simp [mergeIntervals] at h
  rw [mergeIntervals_some ls hne] at h
  cases h
  have := mergeSorted_spec _ (bounded_flatten ls hb)
  exact ⟨this.1, this.2.1⟩

theorem mergeIntervals_none' (ls : List (Option (List Iv))) (h : Option.none ∈ ls) : mergeIntervals ls = Option.none := by
  unfold mergeIntervals
  rw [mapM_none ls h]
  simp

/-- the documented shape without concatenations: digits, ordered digit ranges, zero sequences,
full digit sequences, and unions thereof -/
inductive Shape0 : Re → Prop
  | digit (c : Char) : isDigit c = true → Shape0 (.str [c])
  | range (a b : Char) : isDigit a = true → isDigit b = true → a.toNat ≤ b.toNat → Shape0 (.range [a] [b])
  | zeroesStar : Shape0 (.star (.str ['0']))
  | zeroesPlus : Shape0 (.plus (.str ['0']))
  | fullStar : Shape0 (.star digitRange09)
  | fullPlus : Shape0 (.plus digitRange09)
  | union (rs : List Re) : rs ≠ [] → (∀ r ∈ rs, Shape0 r) → Shape0 (.union rs)

/-! ### helpers for the exactness theorem -/

theorem isDigit_iff (c : Char) : isDigit c = true ↔ 48 ≤ c.toNat ∧ c.toNat ≤ 57 := by
  simp [isDigit]

theorem digitsVal_append (s : List Char) (c : Char) :
    digitsVal (s ++ [c]) = digitsVal s * 10 + (c.toNat - 48) := by
  simp [digitsVal, List.foldl_append]

theorem pyInt_digits (s : List Char) (h : ∀ c ∈ s, isDigit c = true) :
    pyInt s = if s = [] then Option.none else some (digitsVal s : Int) := by
  unfold pyInt
  split
  · exact absurd (h '-' List.mem_cons_self) (by decide)
  · exact absurd (h '+' List.mem_cons_self) (by decide)
  · cases s with
    | nil => simp
    | cons a t => simp [List.all_eq_true]; exact ⟨h a List.mem_cons_self, fun x hx => h x (List.mem_cons_of_mem _ hx)⟩

theorem pyInt_digit (c : Char) (h : isDigit c = true) : pyInt [c] = some ((c.toNat - 48 : Nat) : Int) := by
  rw [pyInt_digits [c] (by simpa using h)]
  simp [digitsVal]

theorem digitsVal_zeros (s : List Char) (h : ∀ c ∈ s, c = '0') : digitsVal s = 0 := by
  unfold digitsVal
  induction s with
  | nil => rfl
  | cons a t ih =>
    have := h a List.mem_cons_self
    subst this
    simpa using ih (fun c hc => h c (List.mem_cons_of_mem _ hc))

theorem exists_digit (k : Nat) (h : k < 10) : ∃ c : Char, c.toNat = k + 48 := by
  have : k = 0 ∨ k = 1 ∨ k = 2 ∨ k = 3 ∨ k = 4 ∨ k = 5 ∨ k = 6 ∨ k = 7 ∨ k = 8 ∨ k = 9 := by omega
  rcases this with rfl | rfl | rfl | rfl | rfl | rfl | rfl | rfl | rfl | rfl
  · exact ⟨'0', rfl⟩
  · exact ⟨'1', rfl⟩
  · exact ⟨'2', rfl⟩
  · exact ⟨'3', rfl⟩
  · exact ⟨'4', rfl⟩
  · exact ⟨'5', rfl⟩
  · exact ⟨'6', rfl⟩
  · exact ⟨'7', rfl⟩
  · exact ⟨'8', rfl⟩
  · exact ⟨'9', rfl⟩

theorem exists_digits (n : Nat) : ∃ s : List Char, s ≠ [] ∧ (∀ c ∈ s, isDigit c = true) ∧ digitsVal s = n := by
  induction n using Nat.strongRecOn with
  | _ n ih =>
    by_cases hn : n < 10
    · obtain ⟨c, hc⟩ := exists_digit n hn
      refine ⟨[c], by simp, ?_, ?_⟩
      · intro d hd; simp at hd; subst hd; rw [isDigit_iff]; omega
      · simp [digitsVal, hc]
    · obtain ⟨s, _, h2, h3⟩ := ih (n / 10) (by omega)
      obtain ⟨c, hc⟩ := exists_digit (n % 10) (by omega)
      refine ⟨s ++ [c], by simp, ?_, ?_⟩
      · intro d hd
        rcases List.mem_append.mp hd with hd | hd
        · exact h2 d hd
        · simp at hd; subst hd; rw [isDigit_iff]; omega
      · rw [digitsVal_append, h3, hc]; omega

theorem inIvs_single (a b n : Int) (ha : a ≠ -maxsize) (hb : b ≠ maxsize) :
    inIvs [(a, b)] n = true ↔ a ≤ n ∧ n ≤ b := by
  simp [inIvs_iff, memIv, ha, hb]

theorem inIvs_open (n : Int) : inIvs [(0, maxsize)] n = true ↔ 0 ≤ n := by
  simp [inIvs_iff, memIv, maxsize]

theorem flatten_singletons (s : List Char) : (s.map fun c => [c]).flatten = s := by
  induction s with
  | nil => rfl
  | cons a t ih => simp [ih]

theorem langAny_iff (rs : List Re) (s : List Char) : LangAny rs s ↔ ∃ r ∈ rs, Lang r s := by
  induction rs with
  | nil => simp [LangAny]
  | cons a t ih => simp [LangAny, ih]

theorem size_le_sizeL (rs : List Re) (r : Re) (h : r ∈ rs) : size r ≤ sizeL rs := by
  induction rs with
  | nil => cases h
  | cons a t ih =>
    simp only [sizeL]
    rcases List.mem_cons.mp h with rfl | h
    · omega
    · have := ih h; omega

/-- strings of `L(digit*)`: all characters are digits -/
theorem lang_digits (ws : List (List Char)) (h : ∀ x ∈ ws, Lang digitRange09 x) :
    ∀ c ∈ ws.flatten, isDigit c = true := by
  intro c hc
  obtain ⟨x, hx, hcx⟩ := List.mem_flatten.mp hc
  obtain ⟨d, rfl, hd⟩ := (by simpa [digitRange09, Lang] using h x hx : ∃ d, x = [d] ∧ rangeHas ['0'] ['9'] d = true)
  simp at hcx; subst hcx
  simpa [rangeHas, isDigit] using hd

theorem lang_zeros (ws : List (List Char)) (h : ∀ x ∈ ws, Lang (str ['0']) x) :
    ∀ c ∈ ws.flatten, c = '0' := by
  intro c hc
  obtain ⟨x, hx, hcx⟩ := List.mem_flatten.mp hc
  have := h x hx
  simp only [Lang] at this
  subst this
  simpa using hcx

theorem intervals_zero (fuel : Nat) : intervals (fuel + 1) (str ['0']) = some [(0, 0)] := by
  simp only [intervals]
  decide

theorem intervals_d09 (fuel : Nat) :
    intervals fuel digitRange09 = Option.none ∨ intervals fuel digitRange09 = some [(0, 9)] := by
  cases fuel with
  | zero => left; simp [intervals]
  | succ f => right; simp only [intervals, digitRange09]; decide

theorem exact_zeros (r : Re)
    (hr : ∀ s, Lang r s → ∃ ws : List (List Char), s = ws.flatten ∧ ∀ x ∈ ws, Lang (str ['0']) x)
    (h0 : Lang r ['0']) : Exact r [(0, 0)] := by
  intro n
  rw [inIvs_single _ _ _ (by decide) (by decide)]
  constructor
  · intro h
    have : n = 0 := by omega
    subst this
    exact ⟨['0'], h0, by decide⟩
  · rintro ⟨s, hs, hv⟩
    obtain ⟨ws, rfl, hws⟩ := hr s hs
    have hz := lang_zeros ws hws
    have hd : ∀ c ∈ ws.flatten, isDigit c = true := by
      intro c hc; rw [hz c hc]; decide
    rw [intVal, pyInt_digits _ hd, digitsVal_zeros _ hz] at hv
    split at hv
    · cases hv
    · cases hv; simp

theorem exact_full (r : Re)
    (hr : ∀ s, Lang r s → ∃ ws : List (List Char), s = ws.flatten ∧ ∀ x ∈ ws, Lang digitRange09 x)
    (h0 : ∀ s : List Char, s ≠ [] → (∀ c ∈ s, isDigit c = true) → Lang r s) : Exact r [(0, maxsize)] := by
  intro n
  rw [inIvs_open]
  constructor
  · intro h
    obtain ⟨s, h1, h2, h3⟩ := exists_digits n.toNat
    refine ⟨s, h0 s h1 h2, ?_⟩
    rw [intVal, pyInt_digits _ h2, h3]
    simp [h1]; omega
  · rintro ⟨s, hs, hv⟩
    obtain ⟨ws, rfl, hws⟩ := hr s hs
    rw [intVal, pyInt_digits _ (lang_digits ws hws)] at hv
    split at hv
    · cases hv
    · cases hv; omega

theorem lang_d09_single (c : Char) (h : isDigit c = true) : Lang digitRange09 [c] := by
  simp only [digitRange09, Lang]
  exact ⟨c, rfl, by simpa [rangeHas, isDigit] using h⟩

theorem bounded_zero : Bounded [(0, 0)] := by
  intro iv hiv; simp at hiv; subst hiv; simp [maxsize]
theorem bounded_open : Bounded [(0, maxsize)] := by
  intro iv hiv; simp at hiv; subst hiv; simp [maxsize]

theorem intervals_exact_aux (r : Re) (h : Shape0 r) :
    ∀ fuel, size r ≤ fuel → ∃ I, intervals fuel r = some I ∧ Bounded I ∧ Exact r I := by
  induction h with
  | digit c hc =>
    intro fuel hf
    obtain ⟨f, rfl⟩ : ∃ f, fuel = f + 1 := ⟨fuel - 1, by simp [size] at hf; omega⟩
    have hc' := (isDigit_iff c).mp hc
    refine ⟨[(((c.toNat - 48 : Nat) : Int), ((c.toNat - 48 : Nat) : Int))], ?_, ?_, ?_⟩
    · simp [intervals, pyInt_digit c hc]
    · intro iv hiv; simp at hiv; subst hiv; simp [maxsize]; omega
    · intro n
      rw [inIvs_single _ _ _ (by simp [maxsize] <;> omega) (by simp [maxsize] <;> omega)]
      simp only [Lang, intVal]
      constructor
      · intro h
        refine ⟨[c], rfl, ?_⟩
        rw [pyInt_digit c hc]; congr 1; omega
      · rintro ⟨s, rfl, hv⟩
        rw [pyInt_digit c hc] at hv; cases hv; omega
  | range a b ha hb hab =>
    intro fuel hf
    obtain ⟨f, rfl⟩ : ∃ f, fuel = f + 1 := ⟨fuel - 1, by simp [size] at hf; omega⟩
    have ha' := (isDigit_iff a).mp ha
    have hb' := (isDigit_iff b).mp hb
    refine ⟨[(((a.toNat - 48 : Nat) : Int), ((b.toNat - 48 : Nat) : Int))], ?_, ?_, ?_⟩
    · simp only [intervals, ha, hb, pyInt_digit a ha, pyInt_digit b hb]
      simp; omega
    · intro iv hiv; simp at hiv; subst hiv; simp [maxsize]; omega
    · intro n
      rw [inIvs_single _ _ _ (by simp [maxsize] <;> omega) (by simp [maxsize] <;> omega)]
      simp only [Lang, intVal]
      constructor
      · intro h
        obtain ⟨c, hc⟩ := exists_digit n.toNat (by omega)
        have hcd : isDigit c = true := by rw [isDigit_iff]; omega
        refine ⟨[c], ⟨c, rfl, ?_⟩, ?_⟩
        · simp [rangeHas]; omega
        · rw [pyInt_digit c hcd]; congr 1; omega
      · rintro ⟨s, ⟨c, rfl, hc⟩, hv⟩
        simp [rangeHas] at hc
        have hcd : isDigit c = true := by rw [isDigit_iff]; omega
        rw [pyInt_digit c hcd] at hv; cases hv; omega
  | zeroesStar =>
    intro fuel hf
    obtain ⟨f, rfl⟩ : ∃ f, fuel = f + 2 := ⟨fuel - 2, by simp [size] at hf; omega⟩
    refine ⟨[(0, 0)], ?_, bounded_zero, ?_⟩
    · have : pyInt ['0'] = some 0 := by decide
      simp [intervals, this]
    · apply exact_zeros
      · intro s hs; simpa only [Lang] using hs
      · exact ⟨[['0']], rfl, by simp [Lang]⟩
  | zeroesPlus =>
    intro fuel hf
    obtain ⟨f, rfl⟩ : ∃ f, fuel = f + 2 := ⟨fuel - 2, by simp [size] at hf; omega⟩
    refine ⟨[(0, 0)], ?_, bounded_zero, ?_⟩
    · have : pyInt ['0'] = some 0 := by decide
      simp [intervals, this]
    · apply exact_zeros
      · intro s hs
        obtain ⟨ws, _, h1, h2⟩ := hs
        exact ⟨ws, h1, h2⟩
      · exact ⟨[['0']], by simp, rfl, by simp [Lang]⟩
  | fullStar =>
    intro fuel hf
    obtain ⟨f, rfl⟩ : ∃ f, fuel = f + 1 := ⟨fuel - 1, by simp [size] at hf; omega⟩
    refine ⟨[(0, maxsize)], ?_, bounded_open, ?_⟩
    · have : Re.beq digitRange09 digitRange09 = true := by decide
      rcases intervals_d09 f with h | h <;> simp [intervals, h, this]
    · apply exact_full
      · intro s hs; simpa only [Lang] using hs
      · intro s _ hd
        refine ⟨s.map fun c => [c], (flatten_singletons s).symm, ?_⟩
        intro x hx
        obtain ⟨c, hc, rfl⟩ := List.mem_map.mp hx
        exact lang_d09_single c (hd c hc)
  | fullPlus =>
    intro fuel hf
    obtain ⟨f, rfl⟩ : ∃ f, fuel = f + 1 := ⟨fuel - 1, by simp [size] at hf; omega⟩
    refine ⟨[(0, maxsize)], ?_, bounded_open, ?_⟩
    · have : Re.beq digitRange09 digitRange09 = true := by decide
      rcases intervals_d09 f with h | h <;> simp [intervals, h, this]
    · apply exact_full
      · intro s hs
        obtain ⟨ws, _, h1, h2⟩ := hs
        exact ⟨ws, h1, h2⟩
      · intro s hne hd
        refine ⟨s.map fun c => [c], by simpa using hne, (flatten_singletons s).symm, ?_⟩
        intro x hx
        obtain ⟨c, hc, rfl⟩ := List.mem_map.mp hx
        exact lang_d09_single c (hd c hc)
  | union rs hne hall ih =>
    intro fuel hf
    obtain ⟨f, rfl⟩ : ∃ f, fuel = f + 1 := ⟨fuel - 1, by simp [size] at hf; omega⟩
    have hf' : sizeL rs ≤ f := by simp [size] at hf; omega
    have ih' : ∀ r ∈ rs, ∃ I, intervals f r = some I ∧ Bounded I ∧ Exact r I :=
      fun r hr => ih r hr f (Nat.le_trans (size_le_sizeL rs r hr) hf')
    let Is := rs.map fun r => (intervals f r).getD []
    have hmap : rs.map (intervals f) = Is.map some := by
      simp only [Is, List.map_map]
      apply List.map_congr_left
      intro r hr
      obtain ⟨I, hI, _⟩ := ih' r hr
      simp [hI]
    have hIs : ∀ I ∈ Is, ∃ r ∈ rs, intervals f r = some I ∧ Bounded I ∧ Exact r I := by
      intro I hI
      obtain ⟨r, hr, rfl⟩ := List.mem_map.mp hI
      obtain ⟨I', hI', h2⟩ := ih' r hr
      exact ⟨r, hr, by simp [hI'], by simpa [hI'] using h2⟩
    have hbI : ∀ I ∈ Is, Bounded I := fun I hI => by
      obtain ⟨r, _, _, hb, _⟩ := hIs I hI; exact hb
    have hneI : Is ≠ [] := by simpa [Is] using hne
    refine ⟨mergeSorted (sortByLo Is.flatten), ?_, ?_, ?_⟩
    · simp only [intervals]; rw [hmap, mergeIntervals_some Is hneI]
    · exact (mergeSorted_spec _ (bounded_flatten Is hbI)).1
    · intro n
      rw [(mergeSorted_spec _ (bounded_flatten Is hbI)).2.2, inIvs_flatten]
      simp only [Lang, langAny_iff]
      constructor
      · rintro ⟨I, hI, hn⟩
        obtain ⟨r, hr, _, _, hex⟩ := hIs I hI
        obtain ⟨s, hs, hv⟩ := (hex n).mp hn
        exact ⟨s, ⟨r, hr, hs⟩, hv⟩
      · rintro ⟨s, ⟨r, hr, hs⟩, hv⟩
        obtain ⟨I, hI, _, hex⟩ := ih' r hr
        refine ⟨I, ?_, (hex n).mpr ⟨s, hs, hv⟩⟩
        exact List.mem_map.mpr ⟨r, hr, by simp [hI]⟩

/-- on this shape the inference always answers, and its answer is exact -/
theorem intervals_exact_shape0' (r : Re) (h : Shape0 r) :
    ∃ I, numericIntervals r = some I ∧ Bounded I ∧ Exact r I :=
  intervals_exact_aux r h _ (by omega)

end IslaVerif.C15
