import IslaVerif.Model.Targets
import IslaVerif.Proofs.TreeOps
namespace IslaVerif
namespace Targets
open Grammar DTree

/-- `B` is reachable from `A` through one or more derivation steps -/
inductive Reach (g : Grammar) : String → String → Prop
  | step {A B : String} : B ∈ succs g A → Reach g A B
  | trans {A B C : String} : Reach g A B → C ∈ succs g B → Reach g A C

/-! ### helper lemmas -/

def SoundR (g : Grammar) (A : String) (R : List String) : Prop := ∀ x ∈ R, Reach g A x

theorem soundR_succs (g : Grammar) (A : String) : SoundR g A (succs g A) :=
  fun _ hx => Reach.step hx

theorem soundR_stepR (g : Grammar) (A : String) (R : List String) (h : SoundR g A R) :
    SoundR g A (stepR g R) := by
  intro x hx
  unfold stepR at hx
  rw [List.mem_append] at hx
  cases hx with
  | inl hx => exact h x hx
  | inr hx =>
    rw [List.mem_eraseDups, List.mem_filter, List.mem_flatMap] at hx
    obtain ⟨⟨a, ha, hxa⟩, _⟩ := hx
    exact Reach.trans (h a ha) hxa

theorem soundR_iterR (g : Grammar) (A : String) : ∀ (n : Nat) (R : List String), SoundR g A R →
    SoundR g A (iterR g n R)
  | 0, _, h => h
  | n+1, R, h => soundR_iterR g A n (stepR g R) (soundR_stepR g A R h)

theorem closedR_spec (g : Grammar) (A : String) (R : List String) (h : closedR g A R = true) :
    (∀ b ∈ succs g A, b ∈ R) ∧ (∀ x ∈ R, ∀ y ∈ succs g x, y ∈ R) := by
  simp only [closedR, Bool.and_eq_true, List.all_eq_true, List.contains_iff_mem] at h
  exact h

theorem mapM_option_spec {α β : Type} (f : α → Option β) : ∀ (l : List α) (rs : List β),
    l.mapM f = some rs → ∀ x ∈ l, ∃ b ∈ rs, f x = some b
  | [], _, _, x, hx => by cases hx
  | a :: l, rs, h, x, hx => by
    rw [List.mapM_cons] at h
    simp only [Option.bind_eq_bind, Option.pure_def, Option.bind_eq_some_iff] at h
    obtain ⟨b, hb, bs, hbs, hrs⟩ := h
    cases hrs
    rw [List.mem_cons] at hx
    cases hx with
    | inl hx => subst hx; exact ⟨b, List.mem_cons_self, hb⟩
    | inr hx =>
      obtain ⟨c, hc, hfc⟩ := mapM_option_spec f l bs hbs x hx
      exact ⟨c, List.mem_cons_of_mem _ hc, hfc⟩

/-- whenever the saturation is certified, it is exactly reachability -/
theorem reachSet_iff' (g : Grammar) (A : String) (R : List String) (h : reachSet g A = some R) (B : String) :
    B ∈ R ↔ Reach g A B := by
  unfold reachSet at h
  simp only at h
  split at h
  · rename_i hc
    cases h
    obtain ⟨h1, h2⟩ := closedR_spec g A _ hc
    constructor
    · intro hB
      exact soundR_iterR g A _ _ (soundR_succs g A) B hB
    · intro hr
      induction hr with
      | step hb => exact h1 _ hb
      | trans _ hc ih => exact h2 _ ih _ hc
  · cases h

theorem reaches_iff' (g : Grammar) (A B : String) (b : Bool) (h : reaches g A B = some b) :
    b = true ↔ Reach g A B := by
  unfold reaches at h
  cases hR : reachSet g A with
  | none => rw [hR] at h; cases h
  | some R =>
    rw [hR] at h
    simp only [Option.map_some, Option.some.injEq] at h
    rw [← h, List.contains_iff_mem]
    exact reachSet_iff' g A R hR B

theorem fixedLenCheck_sound' (g : Grammar) (start : String) (n : Nat) (r : DTree) (h : fixedLenCheck g start n r = true) :
    r.valid g = true ∧ r.closed = true ∧ r.sym = start ∧ (r.yieldC g).length = n := by
  simp only [fixedLenCheck, Bool.and_eq_true, beq_iff_eq] at h
  exact ⟨h.1.1.1, h.1.1.2, h.1.2, h.2⟩

theorem numericCheck_sound' (g : Grammar) (nt : String) (v : Int) (r : DTree) (h : numericCheck g nt v r = true) :
    r.valid g = true ∧ r.closed = true ∧ r.sym = nt ∧ intOfChars (r.yieldC g) = some v := by
  simp only [numericCheck, Bool.and_eq_true, beq_iff_eq] at h
  exact ⟨h.1.1.1, h.1.1.2, h.1.2, h.2⟩

/-- an accepted count completion: derivation tree with the argument's root symbol, exactly `n` nodes
labelled with the needle, no open leaf from which a needle is still reachable, argument tree contained -/
theorem countCheck_sound' (g : Grammar) (arg : DTree) (needle : String) (n : Nat) (r : DTree)
    (h : countCheck g arg needle n r = some true) :
    r.valid g = true ∧ r.sym = arg.sym ∧ countSym r needle = n ∧
    (∀ p u, r.get p = some u → u.isOpenLeaf = true → ¬ Reach g u.sym needle) ∧
    (∀ p u, arg.get p = some u → ∃ q v, r.get q = some v ∧ KeepsNode u v) := by
  unfold countCheck at h
  simp only at h
  split at h
  · cases h
  · rename_i rs hm
    simp only [Option.some.injEq, Bool.and_eq_true, beq_iff_eq] at h
    obtain ⟨⟨⟨⟨h1, h2⟩, h3⟩, h4⟩, h5⟩ := h
    refine ⟨h1, h2, h3, ?_, ?_⟩
    · intro p u hg ho hr
      have hmem : u.sym ∈ (r.openLeaves.map fun pu => pu.2.sym) := by
        rw [List.mem_map]
        refine ⟨(p, u), ?_, rfl⟩
        unfold DTree.openLeaves
        rw [List.mem_filter]
        exact ⟨(C04.mem_paths_iff r p u).2 hg, ho⟩
      obtain ⟨b, hb, hfb⟩ := mapM_option_spec _ _ _ hm _ hmem
      rw [List.all_eq_true] at h4
      have hb' := h4 b hb
      have := (reaches_iff' g u.sym needle b hfb).2 hr
      rw [this] at hb'
      cases hb'
    · intro p u hg
      rw [List.all_eq_true] at h5
      have hc := h5 (p, u) ((C04.mem_paths_iff arg p u).2 hg)
      rw [List.any_eq_true] at hc
      obtain ⟨⟨q, v⟩, hqv, hk⟩ := hc
      exact ⟨q, v, (C04.mem_paths_iff r q v).1 hqv, (keepsNode_iff' u v).1 hk⟩

/-- the numeral value function on plain digit strings is the positional value -/
theorem intOfChars_digits' (ds : List Char) (h1 : ds ≠ []) (h2 : ds.all Char.isDigit = true) :
    intOfChars ds = some (Int.ofNat (ds.foldl (fun a c => 10 * a + (c.toNat - 48)) 0)) := by
  have hne : ds.isEmpty = false := by cases ds <;> simp_all
  unfold intOfChars
  split
  · simp only [List.all_cons, Bool.and_eq_true] at h2
    exact absurd h2.1 (by decide)
  · simp only [List.all_cons, Bool.and_eq_true] at h2
    exact absurd h2.1 (by decide)
  · simp [hne, h2]

end Targets
end IslaVerif

